"""Full read-out of one application's observable state (C17, C20, C16).

Public getters first; for the SQLite family additionally every row of every table named by the
component's own `tables` object, for the in-memory family a canonical copy of the component
dictionaries.  Used as a before/after snapshot: equality is the oracle.
"""
from __future__ import annotations

import sqlite3

from vlib.apps import queue_ids, flush_history


def _safe(fn, *a, **k):
    try:
        return fn(*a, **k)
    except Exception as e:  # the error class is part of the observation
        return f"!{type(e).__name__}"


def _canon(o, depth=0):
    if depth > 6:
        return repr(o)[:200]
    if isinstance(o, (str, int, float, bool)) or o is None:
        return o
    if isinstance(o, bytes):
        return "b:" + o.hex()[:400]
    if isinstance(o, dict):
        return {str(k): _canon(v, depth + 1) for k, v in sorted(o.items(), key=lambda kv: str(kv[0]))}
    if isinstance(o, (list, tuple)):
        return [_canon(x, depth + 1) for x in o]
    if isinstance(o, (set, frozenset)):
        return sorted((_canon(x, depth + 1) for x in o), key=repr)
    if hasattr(o, "to_json"):
        try:
            return _canon(o.to_json(), depth + 1)
        except Exception:
            pass
    if hasattr(o, "__dict__"):
        return {"__cls__": type(o).__name__, **{k: _canon(v, depth + 1) for k, v in sorted(vars(o).items()) if not k.startswith("_lock")}}
    return repr(o)[:300]


def component_tables(app):
    """{component: [table names]} from each SQLite component's own `tables` object."""
    out = {}
    for comp in ("broker", "orchestrator", "state_backend", "trigger", "client_data_store"):
        obj = getattr(app, comp)
        t = getattr(obj, "tables", None)
        if t is None:
            continue
        names = sorted(v for v in vars(t).values() if isinstance(v, str) and v != t.table_prefix and v.startswith(t.table_prefix))
        out[comp] = names
    return out


def sqlite_dump(app):
    """Rows of every table the app's components name (ordered)."""
    path = getattr(app.orchestrator, "sqlite_db_path", None) or getattr(app.broker, "sqlite_db_path", None)
    if not path:
        return None
    out = {}
    con = sqlite3.connect(path, timeout=30)
    try:
        existing = {r[0] for r in con.execute("SELECT name FROM sqlite_master WHERE type='table'")}
        for comp, names in component_tables(app).items():
            for n in names:
                if n not in existing:
                    out[n] = "<missing>"
                    continue
                rows = con.execute(f'SELECT * FROM "{n}"').fetchall()
                if n.endswith("message_queue"):
                    rows = sorted(rows, key=lambda r: (r[2], r[0]))
                    rows = [r[1] for r in rows]  # delivery order of ids; message row ids / created_at are not observable
                else:
                    rows = sorted(rows, key=repr)
                out[n] = [_canon(list(r) if isinstance(r, tuple) else r) for r in rows]
    finally:
        con.close()
    return out


MEM_FIELDS = {
    "orchestrator": ["task_id_to_inv_id", "call_id_to_inv_id", "inv_id_to_call_id", "args_index", "status_index", "invocation_status_record",
                     "invocation_retries", "invocations_to_purge", "runner_creation_time", "runner_last_heartbeat",
                     "runner_last_service_start", "runner_last_service_end", "runner_atomic_service_eligible"],
    "state_backend": ["_cache", "_parent_to_children", "_runner_contexts", "_history", "_results", "_exceptions", "_workflow_data",
                      "_workflow_types", "_workflow_runs", "_workflow_sub_invocations"],
    "broker": ["_queue"],
}


def mem_dump(app):
    out = {}
    for comp, fields in MEM_FIELDS.items():
        obj = getattr(app, comp)
        for f in fields:
            if hasattr(obj, f):
                v = getattr(obj, f)
                if f == "args_index":
                    v = {str(k): sorted(vs) for k, vs in v.items() if vs}
                elif f in ("status_index", "task_id_to_inv_id", "call_id_to_inv_id"):
                    v = {str(k): sorted(vs) for k, vs in v.items() if vs}
                elif f == "_queue" or f == "invocations_to_purge":
                    v = list(v)
                out[f"{comp}.{f}"] = _canon(v)
    bc = getattr(app.orchestrator, "_blocking_control", None)
    if bc is not None and hasattr(bc, "waiting_for"):
        out["blocking.waiting_for"] = _canon({k: v for k, v in bc.waiting_for.items() if v})
        out["blocking.waited_by"] = _canon({k: v for k, v in bc.waited_by.items() if v})
    tr = app.trigger
    for f in ("_conditions", "_triggers", "_valid_conditions", "_condition_triggers", "_source_task_conditions", "_last_cron_executions",
              "_trigger_run_claims", "_execution_claims"):
        if hasattr(tr, f):
            out[f"trigger.{f}"] = _canon(getattr(tr, f))
    cds = app.client_data_store
    for f in ("_store_dict", "_data", "_cache_store", "_storage"):
        if hasattr(cds, f):
            out[f"client.{f}"] = _canon(getattr(cds, f))
    return out


def public_readout(app, inv_ids=(), ref_keys=(), runner_ids=()):
    flush_history(app)
    orch, sb = app.orchestrator, app.state_backend
    out = {}
    out["queue"] = _safe(queue_ids, app)
    out["queue_count"] = _safe(app.broker.count_invocations)
    out["inv_count"] = _safe(orch.count_invocations)
    out["inv_ids"] = _safe(lambda: sorted(orch.get_invocation_ids_paginated(limit=100000)))
    per = {}
    for i in inv_ids:
        rec = _safe(orch.get_invocation_status_record, i)
        if not isinstance(rec, str):
            rec = [rec.status.value, rec.runner_id, rec.timestamp.timestamp()]
        hist = _safe(sb.get_history, i)
        if not isinstance(hist, str):
            hist = sorted([[h.status_record.status.value, h.status_record.runner_id, h.status_record.timestamp.timestamp(), h.runner_context_id] for h in hist], key=repr)
        per[i] = {"status": rec, "retries": _safe(orch.get_invocation_retries, i), "history": hist,
                  "result": _canon(_safe(sb.get_result, i)), "exception": repr(_safe(sb.get_exception, i))[:200],
                  "stored": not isinstance(_safe(sb.get_invocation, i), str)}
    out["invocations"] = per
    ar = _safe(orch.get_active_runners)
    out["active_runners"] = ar if isinstance(ar, str) else [[r.runner_id, r.creation_time.timestamp(), r.last_heartbeat.timestamp(), r.allow_to_run_atomic_service,
                                                             str(r.last_service_start), str(r.last_service_end)] for r in ar]
    out["blocking"] = _safe(lambda: sorted(orch.get_blocking_invocations(1000)))
    vc = _safe(app.trigger.get_valid_conditions)
    out["valid_conditions"] = vc if isinstance(vc, str) else sorted(vc.keys())
    out["app_info"] = _safe(lambda: sb.get_app_info().app_id)
    out["client_data"] = {k: _canon(_safe(app.client_data_store._retrieve, k)) for k in ref_keys}
    out["runner_contexts"] = _canon(_safe(lambda: sorted(c.runner_id for c in sb.get_runner_contexts(list(runner_ids)))))
    return out


def full_readout(app, inv_ids=(), ref_keys=(), runner_ids=()):
    out = {"public": public_readout(app, inv_ids, ref_keys, runner_ids)}
    d = _safe(sqlite_dump, app)
    if d is None:
        d = _safe(mem_dump, app)
        out["mem"] = d
    else:
        out["sqlite"] = d
    return out


def diff(a, b, path=""):
    """Small structural diff: list of paths that differ."""
    if type(a) != type(b):
        return [path or "/"]
    if isinstance(a, dict):
        out = []
        for k in sorted(set(a) | set(b), key=str):
            if k not in a or k not in b:
                out.append(f"{path}/{k}")
            else:
                out += diff(a[k], b[k], f"{path}/{k}")
        return out
    if a != b:
        return [path or "/"]
    return []
