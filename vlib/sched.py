"""E2 - controlled scheduler: real threads, exactly one holds the turn, yield points decide interleavings.

Yield points come from: the SQL statement hook (vlib.sqlhook, mode 'sched'), sys.monitoring LINE events on
selected code objects (vlib.linemon), the cooperative threading/time shims below, and explicit
sc.yield_point(...) calls in harness actors.

Strategies: dfs (stateless enumeration by re-execution, bounded preemptions), pct (random priorities with d
change points), random, rr, replay(choices).
"""
from __future__ import annotations

import hashlib
import random
import threading
import time as _real_time
import traceback

CURRENT = None  # the scheduler of the schedule being executed (one at a time per process)

INSIDE_PREFIXES = ("sql:", "line:", "lock", "probe:", "sleep", "join", "event")


class ActorKilled(BaseException):
    pass


class Actor:
    def __init__(self, name, fn, idx):
        self.name = name
        self.fn = fn
        self.idx = idx
        self.go = threading.Semaphore(0)
        self.state = "runnable"  # runnable | blocked | done
        self.blocked_at = -1
        self.label = "start"
        self.error = None
        self.thread = None
        self.steps = 0


class Scheduler:
    def __init__(self, strategy, max_steps=20000, watchdog_s=180.0):
        self.strategy = strategy
        self.actors: dict[str, Actor] = {}
        self.order: list[str] = []
        self.ctl = threading.Semaphore(0)
        self.current: Actor | None = None
        self.step = 0
        self.clock = 0
        self.max_steps = max_steps
        self.watchdog_s = watchdog_s
        self.trace: list = []          # (step, actor, label)
        self.choices: list[int] = []   # index into the sorted runnable list at each decision
        self.alternatives: list = []   # (runnable names, chosen idx, was_preemption_possible)
        self.switches: list = []
        self.deadlock = False
        self.stuck = None
        self.aborted = False
        self._tids: dict[int, Actor] = {}
        self.on_step = None            # callback(sched) after every step (consistent snapshot monitors)
        self._grace = 0
        self.progress_epoch = 0        # number of steps that ended without blocking (real progress)

    # ---- called from harness / actor threads
    def spawn(self, name, fn):
        if name in self.actors:
            n = 2
            while f"{name}~{n}" in self.actors:
                n += 1
            name = f"{name}~{n}"
        a = Actor(name, fn, len(self.order))
        self.actors[name] = a
        self.order.append(name)

        def body():
            self._tids[threading.get_ident()] = a
            a.go.acquire()
            try:
                if not self.aborted:
                    a.fn()
            except (ActorKilled, SystemExit):
                pass  # a thread that raises SystemExit just ends (threading swallows it)
            except BaseException as e:  # noqa
                a.error = f"{type(e).__name__}: {e}\n{traceback.format_exc()[-1500:]}"
            finally:
                a.state = "done"
                a.label = "end"
                # thread idents are reused by the OS: forget ours, or a later uncontrolled thread would be taken for an actor
                self._tids.pop(threading.get_ident(), None)
                self.ctl.release()

        t = threading.Thread(target=body, name=f"actor-{name}", daemon=True)
        a.thread = t
        t.start()
        if hasattr(self.strategy, "on_spawn"):
            self.strategy.on_spawn(name)
        return a

    def actor(self) -> Actor | None:
        return self._tids.get(threading.get_ident())

    def is_actor(self) -> bool:
        return threading.get_ident() in self._tids and not self.aborted

    def stamp(self) -> int:
        self.clock += 1
        return self.clock

    def yield_point(self, label="op", blocked=False):
        a = self._tids.get(threading.get_ident())
        if a is None or a is not self.current:
            return
        if self.aborted:
            raise ActorKilled()
        a.label = label
        if blocked:
            a.state = "blocked"
            a.blocked_at = self.progress_epoch
        self.ctl.release()
        a.go.acquire()
        if self.aborted:
            raise ActorKilled()
        a.state = "runnable"

    # ---- controller
    def _eligible(self):
        out = []
        for n in self.order:
            a = self.actors[n]
            if a.state == "runnable":
                out.append(n)
            elif a.state == "blocked" and a.blocked_at < self.progress_epoch:
                out.append(n)  # somebody made real progress since it blocked: worth a retry
        return out

    def run(self):
        global CURRENT
        CURRENT = self
        try:
            while True:
                live = [n for n in self.order if self.actors[n].state != "done"]
                if not live:
                    break
                elig = self._eligible()
                if not elig:
                    # every live actor is blocked.  A lock may be held by an *uncontrolled* thread (e.g. a history
                    # writer started during scenario setup): give real time a chance a few times before the verdict.
                    if self._grace < 5:
                        self._grace += 1
                        _real_time.sleep(0.05)
                        self.progress_epoch += 1
                        continue
                    self.deadlock = True
                    break
                self._grace = 0
                if self.step >= self.max_steps:
                    self.stuck = f"max_steps {self.max_steps} reached"
                    break
                cur = self.current.name if self.current and self.current.state == "runnable" and self.current.name in elig else None
                idx = self.strategy.choose(self, elig, cur)
                idx = max(0, min(idx, len(elig) - 1))
                self.choices.append(idx)
                chosen = self.actors[elig[idx]]
                self.alternatives.append((tuple(elig), idx, cur))
                if self.current is not None and chosen is not self.current and self.current.state != "done":
                    self.switches.append((self.current.name, self.current.label))
                self.current = chosen
                chosen.steps += 1
                self.step += 1
                self.clock += 1
                chosen.go.release()
                if not self.ctl.acquire(timeout=self.watchdog_s):
                    self.stuck = f"actor {chosen.name} did not yield within {self.watchdog_s}s (label {chosen.label})"
                    break
                if chosen.state != "blocked":
                    self.progress_epoch += 1
                self.trace.append((self.step, chosen.name, chosen.label))
                if self.on_step is not None:
                    self.on_step(self)
        finally:
            if self.deadlock or self.stuck:
                self.abort()
            CURRENT = None
        return self

    def abort(self):
        self.aborted = True
        for a in self.actors.values():
            if a.state != "done":
                a.go.release()
        for a in self.actors.values():
            if a.thread is not None:
                a.thread.join(timeout=1.0)

    def signature(self):
        h = hashlib.sha1(repr(self.switches).encode()).hexdigest()[:12]
        nontrivial = any(lbl.startswith(INSIDE_PREFIXES) for _, lbl in self.switches)
        return h, nontrivial

    def errors(self):
        return {n: a.error for n, a in self.actors.items() if a.error}


# --------------------------------------------------------------------------- strategies


class Replay:
    def __init__(self, choices, then=None):
        self.choices = list(choices)
        self.i = 0
        self.then = then

    def choose(self, sc, elig, cur):
        if self.i < len(self.choices):
            c = self.choices[self.i]
            self.i += 1
            return c
        self.i += 1
        if self.then is not None:
            return self.then.choose(sc, elig, cur)
        return elig.index(cur) if cur in elig else 0


class RandomFair:
    def __init__(self, seed):
        self.rng = random.Random(seed)

    def choose(self, sc, elig, cur):
        return self.rng.randrange(len(elig))


class RandomStarve:
    """Random-fair, but now and then the actor that just ran is starved for a bounded number of steps while the others go on
    (a long preemption at a random point: the window a descheduled / slow thread opens).  Bounded, so spin-waits still progress."""

    def __init__(self, seed, p=0.02, min_len=20, max_len=600, hot=(), p_hot=0.4):
        """hot: label substrings marking the inside of a multi-step write sequence (directed delay injection between critical sections)"""
        self.rng = random.Random(seed)
        self.p, self.min_len, self.max_len = p, min_len, max_len
        self.hot, self.p_hot = tuple(hot), p_hot
        self.victim, self.left = None, 0
        self.windows = 0
        self.hot_windows = 0

    def choose(self, sc, elig, cur):
        if self.left > 0:
            self.left -= 1
            others = [i for i, a in enumerate(elig) if a != self.victim]
            if others:
                return self.rng.choice(others)
            self.left = 0
        elif cur is not None and cur in elig and len(elig) > 1 and self.rng.random() < (self.p_hot if self.hot and any(h in sc.actors[cur].label for h in self.hot) else self.p):
            self.victim, self.left = cur, self.rng.randint(self.min_len, self.max_len)
            self.windows += 1
            if self.hot and any(h in sc.actors[cur].label for h in self.hot):
                self.hot_windows += 1
            others = [i for i, a in enumerate(elig) if a != self.victim]
            return self.rng.choice(others)
        return self.rng.randrange(len(elig))


class RoundRobin:
    """Fair: after `quantum` consecutive steps of one actor the eligible actor that has waited longest runs next."""

    def __init__(self, quantum=1):
        self.q = max(1, quantum)
        self.run_len = 0
        self.last_run = {}
        self.n = 0

    def choose(self, sc, elig, cur):
        self.n += 1
        if cur in elig and self.run_len < self.q:
            self.run_len += 1
            pick = cur
        else:
            pick = min(elig, key=lambda a: (self.last_run.get(a, -1), 0 if sc.actors[a].state == "runnable" else 1))
            self.run_len = 1
        self.last_run[pick] = self.n
        return elig.index(pick)


class PCT:
    """Probabilistic concurrency testing: random priorities, d-1 priority change points."""

    def __init__(self, seed, depth=2, est_len=200):
        self.rng = random.Random(seed)
        self.prio = {}
        self.depth = depth
        self.change = sorted(self.rng.randrange(1, max(2, est_len)) for _ in range(max(0, depth - 1)))
        self.low = 0

    def on_spawn(self, name):
        self.prio[name] = self.rng.random() + 1.0

    def choose(self, sc, elig, cur):
        for n in elig:
            if n not in self.prio:
                self.prio[n] = self.rng.random() + 1.0
        while self.change and sc.step >= self.change[0]:
            self.change.pop(0)
            if cur is not None:
                self.low -= 1
                self.prio[cur] = self.low
        # blocked actors that retry get a slight handicap so lock holders can progress
        best = max(elig, key=lambda n: (self.prio[n] - (0.0 if sc.actors[n].state == "runnable" else 5.0)))
        return elig.index(best)


class DfsPrefix:
    """Forced prefix, then non-preemptive default (continue current, else lowest index)."""

    def __init__(self, prefix):
        self.prefix = list(prefix)
        self.i = 0

    def choose(self, sc, elig, cur):
        if self.i < len(self.prefix):
            c = self.prefix[self.i]
            self.i += 1
            return c
        self.i += 1
        if cur in elig:
            return elig.index(cur)
        # prefer an actor that is not merely retrying a lock
        for k, n in enumerate(elig):
            if sc.actors[n].state == "runnable":
                return k
        return 0


def _preemptions(alts, choices):
    n = 0
    for (elig, idx, cur), c in zip(alts, choices):
        if cur is not None and elig[c] != cur:
            n += 1
    return n


# --------------------------------------------------------------------------- exploration driver


def run_one(scenario, strategy, sql=False, lines=None, max_steps=20000, shims=None, on_step=None, watchdog_s=180.0):
    """Build the scenario, run one schedule, call finish(). Returns result dict."""
    from vlib import sqlhook
    sc = Scheduler(strategy, max_steps=max_steps, watchdog_s=watchdog_s)
    sc.on_step = on_step
    global CURRENT
    CURRENT = sc
    lm = None
    res = {"choices": None, "trace": None, "out": None, "deadlock": False, "error": None, "stuck": None}
    try:
        if sql:
            sqlhook.install("sched", sched=sc)
        if lines:
            from vlib import linemon
            lm = linemon.enable(lines, sc)
        if shims:
            shims.install(sc)
        finish = scenario(sc)
        sc.run()
        res["deadlock"] = sc.deadlock
        res["stuck"] = sc.stuck
        errs = sc.errors()
        if errs:
            res["error"] = "; ".join(f"{k}: {v}" for k, v in errs.items())[:3000]
        if not sc.stuck:
            try:
                res["out"] = finish() if finish else None
            except Exception as e:
                res["error"] = (res["error"] or "") + f" finish(): {type(e).__name__}: {e} {traceback.format_exc()[-1200:]}"
    finally:
        if lm is not None:
            lm.disable()
        if shims:
            shims.uninstall()
        if sql:
            sqlhook.uninstall()
        CURRENT = None
    res["choices"] = list(sc.choices)
    res["trace"] = [list(t) for t in sc.trace]
    res["steps"] = sc.step
    res["sig"], res["nontrivial"] = sc.signature()
    res["alternatives"] = sc.alternatives
    return res


def explore(scenario, strategy="pct", max_preemptions=2, n=100, seed=0, sql=False, lines=None, max_steps=20000,
            shims=None, max_schedules=200000, time_budget=None, depth=None, on_step_factory=None, keep_all=False, replay_choices=None):
    """Run many schedules of `scenario`. Returns aggregate dict; results holds only schedules with
    a truthy finish() output, a deadlock, an error or a stuck actor."""
    t0 = _real_time.monotonic()
    agg = {"schedules": 0, "steps": 0, "signatures_nontrivial": set(), "signatures": set(), "results": [], "exhausted": False,
           "inconclusive": None, "max_steps_seen": 0}

    def record(res):
        agg["schedules"] += 1
        agg["steps"] += res["steps"]
        agg["max_steps_seen"] = max(agg["max_steps_seen"], res["steps"])
        agg["signatures"].add(res["sig"])
        if res["nontrivial"]:
            agg["signatures_nontrivial"].add(res["sig"])
        if res["stuck"]:
            agg["inconclusive"] = res["stuck"]
        if keep_all or res["out"] or res["deadlock"] or res["error"] or res["stuck"]:
            r = dict(res)
            r.pop("alternatives", None)
            if len(agg["results"]) < 200:
                agg["results"].append(r)

    def over_budget():
        return time_budget is not None and _real_time.monotonic() - t0 > time_budget

    if strategy == "replay":
        res = run_one(scenario, Replay(list(replay_choices or [])), sql=sql, lines=lines, max_steps=max_steps, shims=shims,
                      on_step=on_step_factory() if on_step_factory else None)
        record(res)
    elif strategy == "dfs":
        stack = [[]]
        seen_prefix = set()
        while stack:
            if agg["schedules"] >= max_schedules or over_budget():
                break
            # alternate between the deepest and the shallowest pending prefix so that a time-limited search
            # covers preemptions early in the scenario as well as late ones
            prefix = stack.pop() if agg["schedules"] % 2 else stack.pop(0)
            res = run_one(scenario, DfsPrefix(prefix), sql=sql, lines=lines, max_steps=max_steps, shims=shims,
                          on_step=on_step_factory() if on_step_factory else None)
            record(res)
            alts, choices = res["alternatives"], res["choices"]
            used = 0
            pre_counts = []
            for (elig, idx, cur), c in zip(alts, choices):
                pre_counts.append(used)
                if cur is not None and elig[c] != cur:
                    used += 1
            for i in range(len(prefix), len(choices)):
                elig, idx, cur = alts[i]
                for alt in range(len(elig)):
                    if alt == choices[i]:
                        continue
                    cost = 1 if (cur is not None and elig[alt] != cur) else 0
                    if pre_counts[i] + cost > max_preemptions:
                        continue
                    newp = tuple(choices[:i]) + (alt,)
                    if newp not in seen_prefix:
                        seen_prefix.add(newp)
                        stack.append(list(newp))
        agg["exhausted"] = not stack
    else:
        for k in range(n):
            if over_budget():
                break
            s = seed * 1000003 + k
            if strategy == "pct":
                est = max(20, agg["max_steps_seen"] or 60)
                strat = PCT(s, depth=depth or (1 + k % 3), est_len=est)
            elif strategy == "random":
                strat = RandomFair(s)
            elif strategy == "rr":
                strat = RoundRobin(quantum=1 + k % 4)
            else:
                raise ValueError(strategy)
            res = run_one(scenario, strat, sql=sql, lines=lines, max_steps=max_steps, shims=shims,
                          on_step=on_step_factory() if on_step_factory else None)
            record(res)
    agg["signatures_nontrivial"] = sorted(agg["signatures_nontrivial"])
    agg["signatures"] = len(agg["signatures"])
    return agg
