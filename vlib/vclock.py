"""E5 - virtual clock rebound over the clock names pynenc modules use.

ticking mode: every read is unique (+1 microsecond) so every status timestamp is distinct;
frozen mode: reads return exactly the frozen instant (boundary probes).
Only module attributes are rebound; SQLite's own julianday('now') stays real.
"""
from __future__ import annotations

import datetime as _dt
import threading
import types

_real_datetime = _dt.datetime


class VClock:
    def __init__(self, start: float = 1_700_000_000.0, tick: float = 1e-6):
        self.t = float(start)
        self.tick = tick
        self.frozen = False
        self._lock = threading.Lock()
        self.reads = 0
        self.sleep_hook = None  # called as sleep_hook(dt) after advancing (scheduler yield)

    def time(self) -> float:
        with self._lock:
            self.reads += 1
            if not self.frozen:
                self.t += self.tick
            return self.t

    def peek(self) -> float:
        return self.t

    def advance(self, dt: float) -> None:
        with self._lock:
            self.t += dt

    def set(self, t: float) -> None:
        with self._lock:
            self.t = float(t)

    def freeze(self, t: float | None = None) -> None:
        with self._lock:
            if t is not None:
                self.t = float(t)
            self.frozen = True

    def unfreeze(self) -> None:
        with self._lock:
            self.frozen = False

    def sleep(self, dt: float) -> None:
        if dt and dt > 0:
            self.advance(dt)
        if self.sleep_hook:
            self.sleep_hook(dt)


def make_datetime_class(clock: VClock):
    class VDateTime(_real_datetime):
        @classmethod
        def now(cls, tz=None):
            t = clock.time()
            return _real_datetime.fromtimestamp(t, tz) if tz is not None else _real_datetime.fromtimestamp(t)

        @classmethod
        def utcnow(cls):
            return _real_datetime.fromtimestamp(clock.time(), _dt.UTC).replace(tzinfo=None)

    return VDateTime


def make_time_module(clock: VClock):
    import time as _time
    m = types.ModuleType("vtime")
    m.__dict__.update({k: getattr(_time, k) for k in dir(_time) if not k.startswith("__")})
    m.time = clock.time
    m.sleep = clock.sleep
    m.monotonic = clock.time
    return m


# (module, attribute, kind)  kind: "time_func" | "time_module" | "datetime_cls" | "datetime_module"
PATCH_POINTS = [
    ("pynenc.orchestrator.base_orchestrator", "time", "time_func"),
    ("pynenc.orchestrator.mem_orchestrator", "time", "time_func"),
    ("pynenc.orchestrator.sqlite_orchestrator", "time", "time_func"),
    ("pynenc.invocation.status", "datetime", "datetime_cls"),
    ("pynenc.state_backend.base_state_backend", "datetime", "datetime_cls"),
    ("pynenc.trigger.base_trigger", "datetime", "datetime_cls"),
    ("pynenc.trigger.mem_trigger", "datetime", "datetime_cls"),
    ("pynenc.trigger.sqlite_trigger", "datetime", "datetime_cls"),
    ("pynenc.trigger.trigger_context", "datetime", "datetime_cls"),
    ("pynenc.trigger.trigger_events", "datetime", "datetime_cls"),
    ("pynenc.trigger.conditions.cron", "datetime", "datetime_cls"),
    ("pynenc.runner.base_runner", "datetime", "datetime_cls"),
    ("pynenc.runner.base_runner", "time", "time_module"),
    ("pynenc.runner.thread_runner", "time", "time_module"),
    ("pynenc.invocation.dist_invocation", "time", "time_module"),
]


class Installed:
    def __init__(self, clock, undo):
        self.clock = clock
        self._undo = undo
        self.patched = [f"{m}.{a}" for m, a, _ in undo]

    def uninstall(self):
        for mod, attr, old in reversed(self._undo):
            setattr(mod, attr, old)
        self._undo = []


def install(clock: VClock | None = None, only: list[str] | None = None) -> Installed:
    import importlib
    clock = clock or VClock()
    vdt = make_datetime_class(clock)
    vtime = make_time_module(clock)
    undo = []
    for modname, attr, kind in PATCH_POINTS:
        if only is not None and modname not in only:
            continue
        try:
            mod = importlib.import_module(modname)
        except Exception:
            continue
        if not hasattr(mod, attr):
            continue
        old = getattr(mod, attr)
        new = {"time_func": clock.time, "time_module": vtime, "datetime_cls": vdt}[kind]
        setattr(mod, attr, new)
        undo.append((mod, attr, old))
    return Installed(clock, undo)
