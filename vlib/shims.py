"""Cooperative stand-ins for `threading` and `time` inside selected pynenc modules (controlled runs only).

A paused actor that holds a real threading.Lock would deadlock the one-turn scheduler, so the names
`threading` / `time` of the listed modules are rebound to shims: Lock/RLock.acquire is "try
non-blocking, else yield as blocked", Thread.start registers a new actor, Thread.join yields until
that actor finished, Event.wait yields until set, time.sleep advances the virtual clock and yields.
"""
from __future__ import annotations

import importlib
import threading as _t
import time as _time
import types

from vlib import sched as S

THREADING_MODULES = [
    "pynenc.orchestrator.mem_orchestrator", "pynenc.trigger.mem_trigger", "pynenc.runner.thread_runner",
    "pynenc.state_backend.base_state_backend", "pynenc.runner.base_runner", "pynenc.state_backend.mem_state_backend",
]
TIME_MODULES = ["pynenc.runner.base_runner", "pynenc.runner.thread_runner", "pynenc.invocation.dist_invocation", "pynenc.util.sqlite_utils"]


def _sc():
    sc = S.CURRENT
    if sc is not None and sc.is_actor():
        return sc
    return None


class CoopLock:
    def __init__(self):
        self._l = _t.Lock()

    def acquire(self, blocking=True, timeout=-1):
        sc = _sc()
        if sc is None:
            return self._l.acquire(blocking, timeout) if blocking else self._l.acquire(False)
        while True:
            if self._l.acquire(False):
                return True
            if not blocking:
                return False
            sc.yield_point("lock", blocked=True)

    def release(self):
        self._l.release()

    def locked(self):
        return self._l.locked()

    def __enter__(self):
        self.acquire()
        return self

    def __exit__(self, *a):
        self.release()


class CoopRLock(CoopLock):
    def __init__(self):
        self._l = _t.RLock()

    def locked(self):
        if self._l.acquire(False):
            self._l.release()
            return False
        return True


class CoopEvent:
    def __init__(self):
        self._flag = False

    def is_set(self):
        return self._flag

    def set(self):
        self._flag = True

    def clear(self):
        self._flag = False

    def wait(self, timeout=None):
        sc = _sc()
        if sc is None:
            t0 = _time.monotonic()
            while not self._flag and (timeout is None or _time.monotonic() - t0 < timeout):
                _time.sleep(0.001)
            return self._flag
        if timeout is not None:
            if not self._flag:
                sc.yield_point("event")
            return self._flag
        while not self._flag:
            sc.yield_point("event", blocked=True)
        return True


_thread_counter = [0]


class CoopThread:
    """threading.Thread look-alike: started from inside a controlled run it becomes a scheduler actor."""

    def __init__(self, group=None, target=None, name=None, args=(), kwargs=None, *, daemon=None):
        _thread_counter[0] += 1
        self._target, self._args, self._kwargs = target, tuple(args), dict(kwargs or {})
        self.name = name or f"Thread-v{_thread_counter[0]}"
        self.daemon = bool(daemon)
        self._actor = None
        self._real = None
        self._started = False
        self.ident = None

    def run(self):
        if self._target is not None:
            self._target(*self._args, **self._kwargs)

    def start(self):
        if self._started:
            raise RuntimeError("threads can only be started once")
        self._started = True
        sc = S.CURRENT
        if sc is not None and not sc.aborted and (sc.is_actor() or getattr(sc, "accept_threads", False)):
            self._actor = sc.spawn(self.name, self.run)
            self.ident = self._actor.thread.ident
        else:
            self._real = _t.Thread(target=self.run, name=self.name, daemon=self.daemon)
            self._real.start()
            self.ident = self._real.ident

    def is_alive(self):
        if self._actor is not None:
            return self._actor.state != "done"
        if self._real is not None:
            return self._real.is_alive()
        return False

    def join(self, timeout=None):
        if not self._started:
            raise RuntimeError("cannot join thread before it is started")
        if self._actor is not None:
            sc = _sc()
            if sc is None:
                self._actor.thread.join(timeout)
                return
            if timeout is not None:
                if self._actor.state != "done":
                    sc.yield_point("join")
                return
            while self._actor.state != "done":
                sc.yield_point("join", blocked=True)
            return
        self._real.join(timeout)


class Shims:
    def __init__(self, clock=None, threading_modules=None, time_modules=None, sleep_advances=True):
        self.clock = clock
        self.threading_modules = THREADING_MODULES if threading_modules is None else threading_modules
        self.time_modules = TIME_MODULES if time_modules is None else time_modules
        self.sleep_advances = sleep_advances
        self._undo = []
        self.sleeps = 0

    def _time_module(self):
        m = types.ModuleType("vtime_shim")
        m.__dict__.update({k: getattr(_time, k) for k in dir(_time) if not k.startswith("__")})
        clock = self.clock

        def sleep(dt=0):
            self.sleeps += 1
            if clock is not None and self.sleep_advances and dt and dt > 0:
                clock.advance(dt)
            sc = _sc()
            if sc is not None:
                sc.yield_point("sleep")

        m.sleep = sleep
        if clock is not None:
            m.time = clock.time
            m.monotonic = clock.time
        return m

    def _threading_module(self):
        m = types.ModuleType("vthreading_shim")
        m.__dict__.update({k: getattr(_t, k) for k in dir(_t) if not k.startswith("__")})
        m.Lock = CoopLock
        m.RLock = CoopRLock
        m.Event = CoopEvent
        m.Thread = CoopThread
        return m

    def install(self, sc=None):
        tm, thm = self._time_module(), self._threading_module()
        for mn in self.threading_modules:
            try:
                mod = importlib.import_module(mn)
            except Exception:
                continue
            if hasattr(mod, "threading"):
                self._undo.append((mod, "threading", mod.threading))
                mod.threading = thm
        for mn in self.time_modules:
            try:
                mod = importlib.import_module(mn)
            except Exception:
                continue
            if hasattr(mod, "time") and isinstance(getattr(mod, "time"), types.ModuleType):
                self._undo.append((mod, "time", mod.time))
                mod.time = tm
        return self

    def uninstall(self):
        for mod, attr, old in reversed(self._undo):
            setattr(mod, attr, old)
        self._undo = []
