"""Driver shared by all checks.

A check module (checks/cXX.py) provides:

    PID            "C01"
    LEVEL          "exploration" | "fault_enumeration"
    RULE           str  - how cases are generated and what makes one distinct / non-trivial
    ASSUMPTIONS    list[str]
    REQUIRED_HOOKS list[str] - monitor counters that must be > 0, otherwise the run is inconclusive
    gen_cases(tier, seed) -> list[dict]     JSON-able case descriptions (deterministic in tier+seed)
    run_case(case) -> dict                   executed in a worker process; returns
        {"violations": [{"sig":..., "what":..., "witness": {...}}],
         "distinct": [hashable-as-json keys],   # non-trivial distinct cells observed by this case
         "hooks": {name: count},                  # monitor evaluation counters
         "events": int, "sample": obj|None, "inconclusive": str|None, "extra": {...}}
    optional: EXHAUSTIVE(tier) -> bool, WORKERS(tier) -> int, CASE_TIMEOUT, finalize(check, merged)

The driver shards the cases over worker subprocesses (subprocess.run with a timeout, never a Pool),
merges, classifies violations against known_findings.json (mechanism signatures), writes
evidence/<PID>.json and replay files, prints the verdict lines and sets the exit code:
0 held / 1 violation / 2 inconclusive.
"""
from __future__ import annotations

import fnmatch
import hashlib
import importlib
import json
import os
import subprocess
import sys
import tempfile
import time
import traceback
from collections import Counter

HOME = os.environ.get("VERIF_HOME") or os.path.dirname(os.path.dirname(os.path.abspath(__file__)))
DEPS = os.path.join(HOME, ".deps")
if DEPS not in sys.path:
    sys.path.append(DEPS)  # after site-packages: never shadow the repository's own dependencies


def _jsonable(o):
    try:
        json.dumps(o)
        return o
    except Exception:
        return repr(o)


def slug(s: str) -> str:
    keep = "".join(c if c.isalnum() or c in "-_." else "_" for c in s)
    return keep[:80]


def load_known(pid: str):
    path = os.path.join(HOME, "known_findings.json")
    if not os.path.exists(path):
        return []
    with open(path) as f:
        data = json.load(f)
    return [k for k in data.get("findings", []) if k.get("property") == pid]


def match_known(known, sig: str):
    for k in known:
        pat = k.get("sig", "")
        if pat == sig or (("*" in pat or "?" in pat) and fnmatch.fnmatchcase(sig, pat)):
            return k
    return None


# --------------------------------------------------------------------------- worker


def worker_main(modname: str, shard_path: str, out_path: str) -> int:
    mod = importlib.import_module(modname)
    with open(shard_path) as f:
        cases = json.load(f)
    if hasattr(mod, "setup_worker"):
        mod.setup_worker()
    results = []
    t0 = time.monotonic()
    budget = float(os.environ.get("VERIF_SHARD_BUDGET", "1e9"))
    skipped = 0
    t_last_part = t0
    for i, case in enumerate(cases):
        if time.monotonic() - t0 > budget:
            skipped = len(cases) - i
            break
        try:
            r = mod.run_case(case) or {}
        except BaseException as e:  # a harness error is never a verdict
            r = {"inconclusive": f"harness error in case {case.get('id', i)}: {type(e).__name__}: {e}",
                 "trace": traceback.format_exc()[-3000:]}
        r["case"] = case
        results.append(r)
        if i % 20 == 0 or time.monotonic() - t_last_part > 30:
            t_last_part = time.monotonic()
            with open(out_path + ".part", "w") as f:
                json.dump({"results": results, "skipped": 0, "partial": True}, f, default=_jsonable)
    with open(out_path, "w") as f:
        json.dump({"results": results, "skipped": skipped}, f, default=_jsonable)
    return 0


# --------------------------------------------------------------------------- driver


def run_sharded(modname, cases, nworkers, timeout):
    tmp = tempfile.mkdtemp(prefix="verif_")
    shards = [cases[i::nworkers] for i in range(nworkers)]
    procs = []
    env = dict(os.environ)
    for i, sh in enumerate(shards):
        if not sh:
            continue
        sp = os.path.join(tmp, f"shard{i}.json")
        op = os.path.join(tmp, f"out{i}.json")
        with open(sp, "w") as f:
            json.dump(sh, f)
        log = open(os.path.join(tmp, f"log{i}.txt"), "w")
        p = subprocess.Popen([sys.executable, "-m", "vlib.driver", "--worker", modname, sp, op],
                             stdout=log, stderr=subprocess.STDOUT, env=env, cwd=HOME)
        procs.append((i, p, op, log, len(sh)))
    results, problems = [], []
    deadline = time.monotonic() + timeout
    for i, p, op, log, n in procs:
        try:
            rc = p.wait(timeout=max(1.0, deadline - time.monotonic()))
        except subprocess.TimeoutExpired:
            p.kill()
            p.wait()
            rc = "watchdog"
        log.close()
        data = None
        for cand in (op, op + ".part"):
            if os.path.exists(cand):
                try:
                    with open(cand) as f:
                        data = json.load(f)
                    break
                except Exception:
                    data = None
        if data is not None:
            results.extend(data["results"])
            if data.get("skipped"):
                problems.append(f"shard {i}: budget exhausted, {data['skipped']} cases not run")
        if rc != 0:
            tail = ""
            try:
                with open(os.path.join(tmp, f"log{i}.txt")) as f:
                    tail = f.read()[-1500:]
            except Exception:
                pass
            done = len(data["results"]) if data else 0
            problems.append(f"shard {i}: worker exit {rc} after {done}/{n} cases; log tail: {tail!r}")
    import shutil
    shutil.rmtree(tmp, ignore_errors=True)
    return results, problems


def main(argv=None) -> int:
    argv = list(sys.argv[1:] if argv is None else argv)
    if argv and argv[0] == "--worker":
        return worker_main(argv[1], argv[2], argv[3])
    modname = argv[0]
    replay = argv[argv.index("--replay") + 1] if "--replay" in argv else None
    mod = importlib.import_module(modname)
    pid = mod.PID
    tier = os.environ.get("VERIF_TIER", "quick")
    seed = int(os.environ.get("VERIF_SEED", "0"))
    t0 = time.time()
    known = load_known(pid)

    if replay:
        with open(replay) as f:
            rep = json.load(f)
        if hasattr(mod, "setup_worker"):
            mod.setup_worker()
        r = mod.run_case(rep["case"])
        vs = r.get("violations", [])
        print(json.dumps({"replayed": rep["case"].get("id"), "violations": vs}, indent=1, default=_jsonable)[:6000])
        if vs:
            print(f"VIOLATION property={pid} replay={replay}")
            return 1
        print(f"REPLAY property={pid}: no violation reproduced")
        return 0

    cases = mod.gen_cases(tier, seed)
    for i, c in enumerate(cases):
        c.setdefault("id", i)
    nworkers = getattr(mod, "WORKERS", lambda t: 12)(tier)
    nworkers = max(1, min(nworkers, len(cases)))
    timeout = getattr(mod, "TIMEOUT", lambda t: 900 if t == "quick" else 7200)(tier)
    os.environ.setdefault("VERIF_SHARD_BUDGET", str(timeout * 0.85))
    results, problems = run_sharded(modname, cases, nworkers, timeout)

    evaluations = 0
    distinct = set()
    hooks = Counter()
    events = 0
    samples = []
    # a time-boxed run that did not get through all its cases is a coverage shortfall, not a verdict problem, as long as most cases ran;
    # a worker that had to be killed (a case that never ends) stays inconclusive
    budget_notes = [p_ for p_ in problems if "budget exhausted" in p_]
    hard = [p_ for p_ in problems if "budget exhausted" not in p_]
    coverage_notes = []
    if budget_notes and len(results) >= 0.5 * len(cases):
        coverage_notes = budget_notes
        problems = hard
    inconclusive = list(problems)
    vio_by_sig: dict[str, list] = {}
    extra_merge: dict = {}
    for r in results:
        evaluations += int(r.get("evaluations", 1))
        for d in r.get("distinct", []):
            distinct.add(json.dumps(d, sort_keys=True, default=repr))
        for k, v in (r.get("hooks") or {}).items():
            hooks[k] += v
        events += int(r.get("events", 0))
        if r.get("sample") is not None and len(samples) < 6:
            samples.append(r["sample"])
        if r.get("inconclusive"):
            inconclusive.append(str(r["inconclusive"]) + (" | " + r["trace"][-800:] if r.get("trace") else ""))
        for v in r.get("violations", []):
            v = dict(v)
            v["case"] = r.get("case")
            vio_by_sig.setdefault(v["sig"], []).append(v)
        for k, v in (r.get("extra") or {}).items():
            if isinstance(v, (int, float)):
                extra_merge[k] = extra_merge.get(k, 0) + v
            elif isinstance(v, list):
                extra_merge.setdefault(k, [])
                if len(extra_merge[k]) < 50:
                    extra_merge[k].extend(v[: 50 - len(extra_merge[k])])
    if len(results) < len(cases) and not problems:
        inconclusive.append(f"only {len(results)}/{len(cases)} cases reported")

    # classification
    known_seen, new_vios = {}, {}
    for sig, vs in sorted(vio_by_sig.items()):
        k = match_known(known, sig)
        if k:
            known_seen[sig] = (k, vs)
        else:
            new_vios[sig] = vs

    OUT = os.environ.get("VERIF_OUT") or os.path.join(HOME, "evidence")
    replay_dir = os.path.join(OUT, "replays")
    os.makedirs(replay_dir, exist_ok=True)
    lines = []
    for sig, (k, vs) in known_seen.items():
        lines.append(f"KNOWN-FINDING: property={pid} {k.get('what', sig)} [sig={sig}; seen {len(vs)}x]")
    first_replay = None
    for sig, vs in new_vios.items():
        for n, v in enumerate(vs[:3]):
            path = os.path.join(replay_dir, f"{pid}-{slug(sig)}-{n}.json")
            with open(path, "w") as f:
                json.dump({"property": pid, "sig": sig, "what": v.get("what"), "witness": v.get("witness"),
                           "case": v.get("case"), "tier": tier, "seed": seed}, f, indent=1, default=_jsonable)
            rel = os.path.relpath(path, HOME)
            if n == 0:
                lines.append(f"VIOLATION property={pid} replay={rel}  # {sig}: {str(v.get('what'))[:300]} ({len(vs)}x)")
                first_replay = first_replay or rel

    # inconclusive rules
    for h in getattr(mod, "REQUIRED_HOOKS", []):
        if hooks.get(h, 0) == 0:
            inconclusive.append(f"deciding monitor '{h}' was evaluated 0 times")
    if len(distinct) < 2:
        inconclusive.append(f"only {len(distinct)} distinct non-trivial cases observed")

    merged = {"hooks": dict(hooks), "extra": extra_merge, "results": results}
    cov_extra = {}
    if hasattr(mod, "finalize"):
        try:
            cov_extra = mod.finalize(merged, tier) or {}
        except Exception as e:  # pragma: no cover
            inconclusive.append(f"finalize failed: {e}")

    exhaustive = bool(getattr(mod, "EXHAUSTIVE", lambda t: False)(tier)) and not problems
    coverage = {
        "evaluations": evaluations,
        "distinct_nontrivial": len(distinct),
        "rule": mod.RULE,
        "samples": samples or [c for c in cases[:2]],
        "hook_evaluations": dict(hooks),
        "events": events,
        "cases_generated": len(cases),
        "cases_reported": len(results),
        "known_findings_seen": {s: len(vs) for s, (k, vs) in known_seen.items()},
        "new_violation_signatures": {s: len(vs) for s, vs in new_vios.items()},
        "inconclusive_reasons": inconclusive[:20],
        "time_box_notes": coverage_notes[:20],
        "exhaustive": exhaustive and not coverage_notes,
    }
    coverage.update({k: v for k, v in extra_merge.items() if k not in coverage})
    coverage.update(cov_extra)
    ev = {
        "property_id": pid,
        "tier": tier if tier in ("quick", "thorough") else "quick",
        "seed": seed,
        "level": mod.LEVEL,
        "coverage": coverage,
        "assumptions": list(getattr(mod, "ASSUMPTIONS", [])),
        "wall_s": round(time.time() - t0, 2),
        "violations": sum(len(v) for v in new_vios.values()),
    }
    os.makedirs(OUT, exist_ok=True)
    with open(os.path.join(OUT, f"{pid}.json"), "w") as f:
        json.dump(ev, f, indent=1, default=_jsonable)

    for ln in lines:
        print(ln)
    print(f"[{pid}] tier={tier} seed={seed} cases={len(results)}/{len(cases)} evaluations={evaluations} "
          f"distinct={len(distinct)} events={events} hooks={dict(hooks)} wall={ev['wall_s']}s")
    for n_ in coverage_notes[:4]:
        print(f"NOTE property={pid} time box reached: {n_}")
    if new_vios:
        return 1
    if inconclusive:
        for r in inconclusive[:8]:
            print(f"INCONCLUSIVE property={pid} reason={r[:1500]}")
        return 2
    print(f"HELD property={pid} on everything explored ({evaluations} evaluations, {len(distinct)} distinct non-trivial)")
    return 0


if __name__ == "__main__":
    sys.exit(main())
