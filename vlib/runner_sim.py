"""Real ThreadRunner under the controlled scheduler in virtual time (C09-B, C11, C18, C19).

The runner's own loop (BaseRunner.run), its task threads and the history writer threads are scheduler actors
(`threading` / `time` rebound in the runner modules); a client actor waits for the root invocation and then asks the
runner to stop.  Progress is decided in scheduler steps; a run that exceeds the bound is classified by lasso detection.
"""
from __future__ import annotations

import hashlib
import os
import random
import warnings

from vlib.apps import TmpDir, make_app, queue_ids, flush_history

LINES = [
    "pynenc.invocation.dist_invocation:DistributedInvocation.result",
    "pynenc.invocation.dist_invocation:DistributedInvocationGroup.results",
    "pynenc.runner.thread_runner:ThreadRunner._waiting_for_results",
    "pynenc.runner.thread_runner:ThreadRunner.runner_loop_iteration",
    "pynenc.runner.thread_runner:ThreadRunner._on_stop",
    "pynenc.runner.base_runner:BaseRunner.run",
]


def gen_tree(rng, max_depth=4, max_fan=3, max_nodes=10):
    counter = [0]

    def mk(depth):
        counter[0] += 1
        spec = {"id": counter[0], "v": rng.randrange(10), "mode": "leaf", "children": []}
        if depth < max_depth and counter[0] < max_nodes and rng.random() < 0.75:
            fan = rng.randint(1, max_fan)
            spec["mode"] = rng.choice(["single", "group", "mixed"])
            for _ in range(fan):
                if counter[0] >= max_nodes:
                    break
                spec["children"].append(mk(depth + 1))
            if not spec["children"]:
                spec["mode"] = "leaf"
        return spec
    return mk(1)


def tree_shape(t):
    return t["mode"][0] + "(" + ",".join(tree_shape(c) for c in t["children"]) + ")" if t["children"] else "l"


def sim_conf(slots, **extra):
    conf = dict(runner_cls="ThreadRunner", max_threads=slots, min_threads=1, min_parallel_slots=1, runner_loop_sleep_time_sec=0.01,
                invocation_wait_results_sleep_time_sec=0.01, cached_status_time=0.0, atomic_service_check_interval_minutes=1e12,
                max_pending_seconds=1e9, runner_considered_dead_after_minutes=1e9)
    conf.update(extra)
    return conf


class Sim:
    """One simulated run.  build(sim) must create sim.app (make_app with sim_conf) and return (root invocation or None)."""

    def __init__(self, backend, slots=1, strategy="rr", seed=0, max_steps=30000, extra_lines=(), conf=None):
        self.backend, self.slots, self.strategy, self.seed, self.max_steps = backend, slots, strategy, seed, max_steps
        self.extra_lines = list(extra_lines)
        self.conf = conf or {}
        self.td = TmpDir()
        self.app = None
        self.runner = None
        self.snapshots = []
        self.lasso = None
        self.stop_at_step = None
        self.stop_done_at = None
        self.on_step_extra = None
        self.claimed = set()

    def make_app(self, **extra):
        conf = sim_conf(self.slots, **{**self.conf, **extra})
        self.app = make_app(self.backend, self.td.db("sim.sqlite"), app_id=f"sim{self.backend}", **conf)
        return self.app

    def state_hash(self):
        app = self.app
        try:
            orch = app.orchestrator
            sts = tuple(sorted((i, orch.get_invocation_status(i).name) for i in self.known_ids()))
            q = tuple(queue_ids(app))
            r = self.runner
            th = tuple(sorted(k for k, v in r.threads.items() if v.thread.is_alive())) if r else ()
            w = tuple(sorted(r.waiting_invocation_ids)) if r else ()
            return hashlib.sha1(repr((sts, q, th, w)).encode()).hexdigest()[:16]
        except Exception as e:
            return f"err:{type(e).__name__}"

    def known_ids(self):
        try:
            return list(self.app.orchestrator.get_invocation_ids_paginated(limit=10000))
        except Exception:
            return []

    def run(self, build, client=None, lasso_every=40, lasso_window=25):
        """returns dict(verdict ok|violation|inconclusive, ...)"""
        from vlib import sched as S, shims as SH, vclock, sqlhook, linemon
        clock = vclock.VClock(start=1_700_000_000.0)
        inst = vclock.install(clock, only=["pynenc.orchestrator.base_orchestrator", "pynenc.orchestrator.mem_orchestrator", "pynenc.orchestrator.sqlite_orchestrator",
                                           "pynenc.invocation.status", "pynenc.state_backend.base_state_backend"])
        shims = SH.Shims(clock=clock)
        if self.strategy == "rr":
            strat = S.RoundRobin(quantum=1 + self.seed % 3)
        elif self.strategy == "random":
            strat = S.RandomFair(self.seed)
        elif self.strategy == "starve":
            strat = S.RandomStarve(self.seed, hot=getattr(self, "hot_labels", ()))
        elif self.strategy == "pct":
            strat = S.PCT(self.seed, depth=3, est_len=400)
        else:
            strat = self.strategy
        sim = self

        def scenario(sc):
            sc.accept_threads = False
            # task bodies of the harness get yield points at entry and exit (a body is not atomic)
            try:
                from vtasks import tree as _T
                _T.HOOK[0] = lambda ev, nid: sc.yield_point("probe:body-" + ev)
            except Exception:
                pass
            root = build(sim)
            flush_history(sim.app)
            sim.runner = sim.app.runner
            sim.sc = sc
            result = {}
            sim.result = result
            # record what the runner claims (for C11's read-out)
            orch = sim.app.orchestrator
            real_gitr = orch.get_invocations_to_run

            def gitr(n, ctx):
                for inv in real_gitr(n, ctx):
                    sim.claimed.add(inv.invocation_id)
                    yield inv
            orch.get_invocations_to_run = gitr

            real_on_stop = sim.runner._on_stop

            def on_stop_probe():
                sim.tracked_at_on_stop = {k: v.thread.is_alive() for k, v in sim.runner.threads.items()}
                return real_on_stop()
            sim.runner._on_stop = on_stop_probe

            def loop():
                with warnings.catch_warnings():
                    warnings.simplefilter("ignore")
                    sim.runner.run()
                result["loop_returned_at"] = sc.step
            sc.spawn("loop", loop)

            def default_client():
                # an external client waiting for the root (no runner context): polls the status, then asks the runner to stop
                while True:
                    st = orch.get_invocation_status(root.invocation_id)
                    if st.is_final():
                        break
                    sc.yield_point("sleep")
                result["root_final_at"] = sc.step
                try:
                    result["value"] = root.get_final_result()
                except Exception as e:
                    result["exception"] = e
                if sim.stop_at_step is None:
                    sim.runner.stop_runner_loop()
            if root is not None or client is not None:
                sc.spawn("client", (lambda: client(sim, sc, result)) if client else default_client)

            counts = {}

            def on_step(s):
                # the stop request arrives "at any moment of its loop": a request that precedes the start of the loop is postponed
                # to the first step at which the loop is running
                if sim.stop_at_step is not None and s.step >= sim.stop_at_step and sim.stop_done_at is None and sim.runner.running:
                    sim.stop_done_at = s.step
                    sim.runner.stop_runner_loop()
                if sim.on_step_extra:
                    sim.on_step_extra(s)
                if s.step % lasso_every == 0:
                    live = tuple(sorted(n for n, a in s.actors.items() if a.state != "done"))
                    steps = {n: s.actors[n].steps for n in live}
                    sim.snapshots.append((sim.state_hash(), live, steps))
                    if len(sim.snapshots) >= lasso_window:
                        win = sim.snapshots[-lasso_window:]
                        if all(w[0] == win[0][0] and w[1] == win[0][1] for w in win) and not win[0][0].startswith("err"):
                            if all(win[-1][2][n] - win[0][2][n] >= 5 for n in win[0][1] if n in win[-1][2]):
                                sim.lasso = {"state": win[0][0], "live_actors": list(win[0][1]), "from_step": s.step - lasso_every * (lasso_window - 1), "to_step": s.step}
                                s.stuck = "lasso"
                                s.max_steps = s.step  # stop the run
            sc.on_step = on_step
            return lambda: result

        lines = (LINES + self.extra_lines)
        try:
            res = S.run_one(scenario, strat, sql=(self.backend == "sqlite"), lines=lines, shims=shims, max_steps=self.max_steps, watchdog_s=180.0)
        finally:
            inst.uninstall()
        out = {"steps": res["steps"], "sig": res["sig"], "choices_len": len(res["choices"]), "result": getattr(self, "result", {}), "trace_tail": res["trace"][-25:],
               "error": res["error"], "deadlock": res["deadlock"], "stuck": res["stuck"], "lasso": self.lasso, "virtual_time": round(clock.peek() - 1_700_000_000.0, 3)}
        return out

    def close(self):
        self.td.close()


def run_tree(backend, tree, slots=1, strategy="rr", seed=0):
    """C09-B: the tree's root must reach a final status with the expected value."""
    from vtasks import tree as T
    T.EXEC_COUNT.clear()
    sim = Sim(backend, slots=slots, strategy=strategy, seed=seed, max_steps=40000)

    def build(s):
        app = s.make_app()
        task = app.task(T.node)
        return task(tree)
    try:
        out = sim.run(build)
    finally:
        sim.close()
    expected = T.tree_value(tree)
    res = out["result"]
    base = {"steps": out["steps"], "virtual_time": out["virtual_time"], "trace_tail": out["trace_tail"], "executions": dict(T.EXEC_COUNT)}
    if out["lasso"] and "root_final_at" not in res:
        return {"verdict": "violation", "sig_v": f"tree-never-completes:slots={slots}", "what": f"the system state repeats (steps {out['lasso']['from_step']}..{out['lasso']['to_step']}) while every live actor keeps being scheduled: the root never finishes",
                "witness": {**base, "lasso": out["lasso"]}, "sig": out["sig"]}
    if out["deadlock"]:
        return {"verdict": "violation", "sig_v": f"tree-deadlock:slots={slots}", "what": "every live actor is blocked", "witness": base, "sig": out["sig"]}
    if out["error"] and "root_final_at" not in res:
        return {"verdict": "violation", "sig_v": "tree-run-error", "what": out["error"][:400], "witness": base, "sig": out["sig"]}
    if "root_final_at" not in res:
        return {"verdict": "inconclusive", "what": f"step bound reached ({out['steps']}) while the state was still changing ({out['stuck']})", "sig": out["sig"]}
    if "exception" in res:
        return {"verdict": "violation", "sig_v": "tree-root-failed", "what": f"root raised {res['exception']!r:.200}", "witness": base, "sig": out["sig"]}
    if res.get("value") != expected:
        return {"verdict": "violation", "sig_v": "tree-wrong-value", "what": f"root value {res.get('value')} != {expected}", "witness": base, "sig": out["sig"]}
    if "loop_returned_at" not in res:
        if out["lasso"]:
            return {"verdict": "violation", "sig_v": "runner-stop-never-completes-after-tree", "what": "the tree completed but the runner's stop never returns", "witness": {**base, "lasso": out["lasso"]}, "sig": out["sig"]}
        return {"verdict": "inconclusive", "what": f"root finished but run() had not returned after {out['steps']} steps ({out['stuck']})", "sig": out["sig"]}
    return {"verdict": "ok", "sig": out["sig"], "steps": out["steps"]}
