"""E3 - line-level yield points for the in-memory code via sys.monitoring (3.12).

LINE events are enabled with set_local_events only on the code objects of the listed functions;
the callback yields to the controlled scheduler when the current thread is one of its actors.
"""
from __future__ import annotations

import importlib
import sys

TOOL = 4  # a free tool id (0..5); 4 is not reserved by debugger/coverage/profiler/optimizer
_active = None


def resolve(spec: str):
    """'pkg.mod:Class.method' or 'pkg.mod:function' -> function object(s)"""
    modname, _, qual = spec.partition(":")
    obj = importlib.import_module(modname)
    for part in qual.split("."):
        obj = getattr(obj, part)
    if isinstance(obj, (staticmethod, classmethod)):
        obj = obj.__func__
    if isinstance(obj, property):
        obj = obj.fget
    return getattr(obj, "__func__", obj)


def resolve_all(spec: str):
    """like resolve, plus wildcards: 'pkg.mod:Class.*' = every function defined in the class body (incl. properties, static/class methods),
    'pkg.mod:*' = every function and every method of every class defined in that module.  Wildcards make helper functions that a later
    refactoring introduces preemptible as well (a fixed list would run them atomically)."""
    import inspect
    modname, _, qual = spec.partition(":")
    if not qual.endswith("*"):
        return [resolve(spec)]
    mod = importlib.import_module(modname)

    def class_functions(cls):
        out = []
        for v in vars(cls).values():
            if isinstance(v, (staticmethod, classmethod)):
                v = v.__func__
            if isinstance(v, property):
                out.extend(f for f in (v.fget, v.fset) if f is not None)
            elif inspect.isfunction(v):
                out.append(v)
        return out
    if qual == "*":
        out = [v for v in vars(mod).values() if inspect.isfunction(v) and v.__module__ == modname]
        for v in vars(mod).values():
            if inspect.isclass(v) and v.__module__ == modname:
                out.extend(class_functions(v))
        return out
    obj = mod
    for part in qual[:-2].split("."):
        obj = getattr(obj, part)
    return class_functions(obj)


def code_objects(fn):
    """the function's code object plus nested code objects (generators, comprehensions, lambdas)"""
    out = []
    code = getattr(fn, "__code__", None) or getattr(getattr(fn, "__wrapped__", None), "__code__", None)
    if code is None:
        return out
    stack = [code]
    while stack:
        c = stack.pop()
        out.append(c)
        for k in c.co_consts:
            if hasattr(k, "co_code"):
                stack.append(k)
    return out


class LineMonitor:
    def __init__(self, specs, sched):
        self.sched = sched
        self.codes = []
        self.missing = []
        self.hits = 0
        seen = set()
        for s in specs:
            try:
                fns = resolve_all(s)
            except Exception:
                self.missing.append(s)
                continue
            cs = [c for fn in fns for c in code_objects(fn)]
            if not cs:
                self.missing.append(s)
            for c in cs:
                if id(c) not in seen:
                    seen.add(id(c))
                    self.codes.append(c)
        self.names = {id(c): f"{c.co_name}" for c in self.codes}

    def _cb(self, code, line):
        sc = self.sched
        if sc is not None and sc.is_actor():
            self.hits += 1
            sc.yield_point(f"line:{code.co_name}:{line}")
        return None

    def enable(self):
        mon = sys.monitoring
        global _active
        if _active is not None:
            _active.disable()
        try:
            mon.use_tool_id(TOOL, "verif-linemon")
        except ValueError:
            pass
        mon.register_callback(TOOL, mon.events.LINE, self._cb)
        for c in self.codes:
            mon.set_local_events(TOOL, c, mon.events.LINE)
        _active = self
        return self

    def disable(self):
        mon = sys.monitoring
        global _active
        for c in self.codes:
            try:
                mon.set_local_events(TOOL, c, 0)
            except Exception:
                pass
        try:
            mon.register_callback(TOOL, mon.events.LINE, None)
            mon.free_tool_id(TOOL)
        except Exception:
            pass
        if _active is self:
            _active = None


def enable(specs, sched):
    return LineMonitor(specs, sched).enable()


# Commonly used spec lists ---------------------------------------------------------------------------------
MEM_ORCH = [
    "pynenc.orchestrator.mem_orchestrator:MemOrchestrator._atomic_status_transition",
    "pynenc.orchestrator.mem_orchestrator:MemOrchestrator._get_invocation_lock",
    "pynenc.orchestrator.mem_orchestrator:MemOrchestrator._interanl_atomic_status_transition",
    "pynenc.orchestrator.mem_orchestrator:MemOrchestrator.get_existing_invocations",
    "pynenc.orchestrator.mem_orchestrator:MemOrchestrator.get_pending_invocations_for_recovery",
    "pynenc.orchestrator.mem_orchestrator:MemOrchestrator._get_running_invocations_for_recovery",
]
MEM_BLOCKING = [
    "pynenc.orchestrator.mem_orchestrator:MemBlockingControl.waiting_for_results",
    "pynenc.orchestrator.mem_orchestrator:MemBlockingControl.release_waiters",
    "pynenc.orchestrator.mem_orchestrator:MemBlockingControl.get_blocking_invocations",
]
MEM_BROKER = [
    "pynenc.broker.mem_broker:MemBroker.retrieve_invocation",
    "pynenc.broker.mem_broker:MemBroker.route_invocation",
]
BASE_ORCH_POLL = [
    "pynenc.orchestrator.base_orchestrator:BaseOrchestrator.get_invocations_to_run",
    "pynenc.orchestrator.base_orchestrator:BaseOrchestrator.get_additional_invocations_to_run",
    "pynenc.orchestrator.base_orchestrator:BaseOrchestrator.get_blocking_invocations_to_run",
    "pynenc.orchestrator.base_orchestrator:BaseOrchestrator.set_invocation_status",
    "pynenc.orchestrator.base_orchestrator:BaseOrchestrator.reroute_invocations",
    "pynenc.orchestrator.base_orchestrator:BaseOrchestrator.set_invocation_result",
    "pynenc.orchestrator.base_orchestrator:BaseOrchestrator.set_invocation_exception",
    "pynenc.orchestrator.base_orchestrator:BaseOrchestrator.set_invocation_retry",
]
DIST_RUN = [
    "pynenc.invocation.dist_invocation:DistributedInvocation.run",
    "pynenc.invocation.dist_invocation:DistributedInvocation.get_final_result",
]
