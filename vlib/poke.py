"""State setup helpers that write a status record straight into a backend.

Used only to *reach* (status, owner) pairs the public API cannot produce (C01's full single-step
space).  Every poke is verified by reading the record back through the public getter; if the
backend internals moved, HarnessError is raised and the run becomes inconclusive, never a verdict.
"""
from __future__ import annotations


class HarnessError(Exception):
    pass


def force_status(app, inv_id, status_name: str, owner):
    from pynenc.invocation.status import InvocationStatus, InvocationStatusRecord
    st = InvocationStatus[status_name]
    orch = app.orchestrator
    try:
        if hasattr(orch, "invocation_status_record"):  # in-memory
            prev = orch.invocation_status_record.get(inv_id)
            if prev is not None:
                orch.status_index[prev.status].discard(inv_id)
            rec = InvocationStatusRecord(st, owner)
            orch.invocation_status_record[inv_id] = rec
            orch.status_index[st].add(inv_id)
        else:
            import sqlite3
            con = sqlite3.connect(orch.sqlite_db_path, timeout=30)
            try:
                rec = InvocationStatusRecord(st, owner)
                cur = con.execute(
                    f"UPDATE {orch.tables.INVOCATIONS} SET status=?, status_runner_id=?, status_timestamp=? WHERE invocation_id=?",
                    (st.value, owner, rec.timestamp.timestamp(), inv_id))
                if cur.rowcount != 1:
                    raise HarnessError(f"poke: no row for {inv_id}")
                con.commit()
            finally:
                con.close()
    except HarnessError:
        raise
    except Exception as e:
        raise HarnessError(f"poke failed: {type(e).__name__}: {e}")
    got = orch.get_invocation_status_record(inv_id)
    if got.status != st or got.runner_id != owner:
        raise HarnessError(f"poke not visible through the public getter: wanted {status_name}/{owner}, got {got}")
    return got
