"""App factories and small stepping helpers used by the checks.

Everything goes through pynenc's public classes; nothing here re-implements pynenc logic.
"""
from __future__ import annotations

import itertools
import os
import shutil
import tempfile
import threading

_counter = itertools.count(1)


def fresh_id(prefix="v"):
    return f"{prefix}{os.getpid()}x{next(_counter)}"


class TmpDir:
    """Temp directory removed on close (databases, scratch)."""

    def __init__(self):
        self.path = tempfile.mkdtemp(prefix="verif_db_")

    def db(self, name="db.sqlite"):
        return os.path.join(self.path, name)

    def close(self):
        shutil.rmtree(self.path, ignore_errors=True)

    def __enter__(self):
        return self

    def __exit__(self, *a):
        self.close()


MEM = {
    "orchestrator_cls": "MemOrchestrator",
    "broker_cls": "MemBroker",
    "state_backend_cls": "MemStateBackend",
    "client_data_store_cls": "MemClientDataStore",
    "trigger_cls": "MemTrigger",
}
SQLITE = {
    "orchestrator_cls": "SQLiteOrchestrator",
    "broker_cls": "SQLiteBroker",
    "state_backend_cls": "SQLiteStateBackend",
    "client_data_store_cls": "SQLiteClientDataStore",
    "trigger_cls": "SQLiteTrigger",
}


def make_app(kind: str, db_path: str | None = None, app_id: str | None = None, **conf):
    """kind: 'mem' | 'sqlite'.  Extra keyword arguments are flat pynenc config values."""
    import pynenc  # noqa: F401  (import late: patches may be installed first)
    from pynenc import Pynenc
    # make sure every backend class is imported so get_subclass can find it
    import pynenc.orchestrator.mem_orchestrator, pynenc.orchestrator.sqlite_orchestrator  # noqa
    import pynenc.broker.mem_broker, pynenc.broker.sqlite_broker  # noqa
    import pynenc.state_backend.mem_state_backend, pynenc.state_backend.sqlite_state_backend  # noqa
    import pynenc.trigger.mem_trigger, pynenc.trigger.sqlite_trigger  # noqa
    import pynenc.client_data_store.mem_client_data_store, pynenc.client_data_store.sqlite_client_data_store  # noqa
    import pynenc.runner.thread_runner  # noqa

    cfg = dict(MEM if kind == "mem" else SQLITE)
    cfg["app_id"] = app_id or fresh_id("app")
    cfg["logging_level"] = os.environ.get("VERIF_LOGLEVEL", "critical")
    cfg["runner_cls"] = "ThreadRunner"
    cfg["serializer_cls"] = "JsonPickleSerializer"
    if kind == "sqlite":
        assert db_path, "sqlite apps need a db_path"
        cfg["sqlite_db_path"] = db_path
    cfg.update(conf)
    Pynenc._instances.pop(cfg["app_id"], None)
    app = Pynenc(config_values=cfg)
    return app


def runner_ctx(name: str, runner_id: str | None = None, parent=None):
    from pynenc.runner.runner_context import RunnerContext
    return RunnerContext(runner_cls=name, runner_id=runner_id or name, parent_ctx=parent)


def set_thread_ctx(app, ctx):
    """Make `ctx` the runner context of the calling thread for `app` (what a runner thread has)."""
    from pynenc import context
    context.set_current_app(app)
    context.set_runner_context(app.app_id, ctx)


def clear_thread_ctx(app):
    from pynenc import context
    context.clear_runner_context(app.app_id)
    context.swap_dist_invocation_context(app.app_id, None)
    try:
        context.thread_local.current_app = None
    except Exception:
        pass


def flush_history(app, timeout=10.0):
    """Join the background history writer threads (the flush the property refers to)."""
    sb = app.state_backend
    for inv_id, threads in list(sb.invocation_threads.items()):
        for t in list(threads):
            try:
                t.join(timeout)
            except RuntimeError:
                pass


def queue_ids(app):
    """Queue content in delivery order without going through the broker API (for snapshots only)."""
    br = app.broker
    if hasattr(br, "_queue"):
        return list(br._queue)
    import sqlite3
    con = sqlite3.connect(br.sqlite_db_path, timeout=30)
    try:
        rows = con.execute(f"SELECT invocation_id FROM {br.tables.QUEUE} ORDER BY created_at ASC, id ASC").fetchall()
    finally:
        con.close()
    return [r[0] for r in rows]


def status_triple(app, inv_id):
    rec = app.orchestrator.get_invocation_status_record(inv_id)
    return (rec.status.value, rec.runner_id, rec.timestamp.timestamp())


def drain_pynenc_threads():
    """Best effort: wait for stray daemon threads started by pynenc (history writers)."""
    for t in threading.enumerate():
        if t is threading.current_thread() or t.daemon is False and t.name == "MainThread":
            continue
