"""Reference model of the documented invocation lifecycle (C01, also used by C02/C10/C16).

Independent of pynenc/invocation/status.py: the edge set is the `data-edge` attributes of
docs/_static/invocation_state_machine.svg (the documented graph of the tree under test), the
ownership rules are the sentences of property C01.  Statuses are plain upper-case strings.
"""
from __future__ import annotations

import os
import re

FROZEN_EDGES = frozenset({
    ("START", "REGISTERED"), ("CONCURRENCY_CONTROLLED", "REROUTED"), ("KILLED", "REROUTED"),
    ("PAUSED", "KILLED"), ("PAUSED", "RESUMED"), ("PENDING", "KILLED"), ("PENDING", "PENDING_RECOVERY"),
    ("PENDING", "REROUTED"), ("PENDING", "RUNNING"), ("PENDING_RECOVERY", "REROUTED"),
    ("REGISTERED", "CONCURRENCY_CONTROLLED"), ("REGISTERED", "CONCURRENCY_CONTROLLED_FINAL"),
    ("REGISTERED", "PENDING"), ("REROUTED", "CONCURRENCY_CONTROLLED"), ("REROUTED", "PENDING"),
    ("RESUMED", "FAILED"), ("RESUMED", "KILLED"), ("RESUMED", "PAUSED"), ("RESUMED", "RETRY"),
    ("RESUMED", "SUCCESS"), ("RETRY", "PENDING"), ("RUNNING", "FAILED"), ("RUNNING", "KILLED"),
    ("RUNNING", "PAUSED"), ("RUNNING", "RETRY"), ("RUNNING", "RUNNING_RECOVERY"), ("RUNNING", "SUCCESS"),
    ("RUNNING_RECOVERY", "REROUTED"),
})

STATUSES = [
    "REGISTERED", "CONCURRENCY_CONTROLLED", "CONCURRENCY_CONTROLLED_FINAL", "REROUTED", "PENDING",
    "PENDING_RECOVERY", "RUNNING", "RUNNING_RECOVERY", "PAUSED", "RESUMED", "KILLED", "SUCCESS",
    "FAILED", "RETRY",
]
FINALS = frozenset({"SUCCESS", "FAILED", "CONCURRENCY_CONTROLLED_FINAL"})
OWNED = frozenset({"PENDING", "RUNNING", "PAUSED", "RESUMED"})       # only the owner may move these ...
RECOVERY = frozenset({"PENDING_RECOVERY", "RUNNING_RECOVERY"})          # ... except towards these
KEEPS_OWNER = frozenset({"RUNNING", "PAUSED", "RESUMED"})
# statuses from which a runner may pick the invocation up (documented "available for run")
AVAILABLE = frozenset({"REGISTERED", "REROUTED", "RETRY"})


def load_doc_edges(repo: str | None = None):
    """Edges of the documented graph of the tree under test; (edges, source, drift_vs_frozen)."""
    repo = repo or os.environ.get("VERIF_REPO", "/repo")
    path = os.path.join(repo, "docs", "_static", "invocation_state_machine.svg")
    try:
        with open(path, encoding="utf-8") as f:
            txt = f.read()
        found = re.findall(r'data-edge="([A-Z_]+)->([A-Z_]+)"', txt)
        edges = frozenset((a, b) for a, b in found)
        if len(edges) < 10:
            raise ValueError("too few edges parsed")
        drift = sorted(map(list, edges ^ FROZEN_EDGES))
        return edges, "svg", drift
    except Exception as e:  # documented graph unreadable: fall back to the frozen copy, say so
        return FROZEN_EDGES, f"frozen ({e})", []


class Lifecycle:
    def __init__(self, edges=None):
        self.edges = frozenset(edges) if edges is not None else FROZEN_EDGES

    def has_edge(self, cur: str | None, req: str) -> bool:
        if cur in FINALS:
            return False  # finals are absorbing whatever the drawing says
        return (("START" if cur is None else cur), req) in self.edges

    def step(self, cur: str | None, owner: str | None, req: str, requester: str | None):
        """-> ("ok", new_status, new_owner) | ("error", reason) | ("open", reason)

        "open": the statement does not fix the outcome (requester None asking for PENDING);
        either outcome is accepted but unchanged-on-error and backend agreement are still required.
        """
        if not self.has_edge(cur, req):
            return ("error", "no-edge")
        if cur in OWNED and req not in RECOVERY and requester != owner:
            return ("error", "not-owner")
        if req == "PENDING" and requester is None:
            return ("open", "pending-without-requester")
        if req == "PENDING":
            new_owner = requester
        elif req in KEEPS_OWNER:
            new_owner = owner
        else:
            new_owner = None
        return ("ok", req, new_owner)

    def is_path(self, statuses: list[str]) -> bool:
        prev = None
        for s in statuses:
            if not self.has_edge(prev, s):
                return False
            prev = s
        return True

    def shortest_path(self, target: str) -> list[str] | None:
        """Shortest doc-graph path START -> target (list of statuses, excluding START)."""
        from collections import deque
        q = deque([("START", [])])
        seen = {"START"}
        while q:
            node, path = q.popleft()
            if node == target:
                return path
            if node in FINALS:
                continue
            for a, b in sorted(self.edges):
                if a == node and b not in seen:
                    seen.add(b)
                    q.append((b, path + [b]))
        return None
