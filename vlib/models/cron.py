"""Independent brute-force evaluator for a generated family of 5-field cron expressions (C13).

Fields: `*`, `*/k`, `a`, `a,b,c`, `a-b`, `a-b/k`.  Never both day-of-month and day-of-week restricted (their combination
has vixie-cron OR semantics, which is outside the generated family).  No croniter involved.
"""
from __future__ import annotations

from datetime import UTC, datetime, timedelta

RANGES = [(0, 59), (0, 23), (1, 31), (1, 12), (0, 6)]


def parse_field(text, lo, hi):
    out = set()
    for part in text.split(","):
        step = 1
        if "/" in part:
            part, s = part.split("/")
            step = int(s)
        if part == "*":
            a, b = lo, hi
        elif "-" in part:
            a, b = map(int, part.split("-"))
        else:
            a = b = int(part)
        out.update(range(a, b + 1, step))
    return {x for x in out if lo <= x <= hi}


class Matcher:
    def __init__(self, expr):
        f = expr.split()
        assert len(f) == 5
        self.minute, self.hour, self.dom, self.month, self.dow = [parse_field(f[i], *RANGES[i]) for i in range(5)]

    def day_matches(self, d):
        return d.month in self.month and d.day in self.dom and ((d.weekday() + 1) % 7) in self.dow

    def matches(self, dt):
        return dt.minute in self.minute and dt.hour in self.hour and self.day_matches(dt)

    def last_scheduled_at_or_before(self, pt, max_days=400):
        t = pt.replace(second=0, microsecond=0)
        for _ in range(max_days):
            if self.day_matches(t):
                # scan this day backwards from t
                cur = t
                day = t.date()
                while cur.date() == day:
                    if cur.hour in self.hour:
                        if cur.minute in self.minute:
                            return cur
                        cur -= timedelta(minutes=1)
                    else:
                        cur = cur.replace(minute=0) - timedelta(minutes=1)
            t = (t.replace(hour=0, minute=0) - timedelta(minutes=1))
        return None

    def min_gap_seconds(self, start, horizon_minutes=4320):
        prev, best = None, 10 ** 9
        t = start.replace(second=0, microsecond=0)
        for _ in range(horizon_minutes):
            if self.matches(t):
                if prev is not None:
                    best = min(best, (t - prev).total_seconds())
                prev = t
            t += timedelta(minutes=1)
        return best


def gen_field(rng, lo, hi, dense):
    r = rng.random()
    if r < (0.5 if dense else 0.3):
        return "*", "star"
    if r < 0.7:
        k = rng.choice([2, 3, 5, 10, 15] if hi >= 23 else [2, 3])
        return f"*/{k}", "step"
    if r < 0.85:
        vals = sorted(rng.sample(range(lo, hi + 1), rng.randint(1, min(3, hi - lo + 1))))
        return ",".join(map(str, vals)), "list"
    a = rng.randint(lo, hi - 1)
    b = rng.randint(a + 1, hi)  # never a degenerate a-a range (croniter treats it as a wildcard; outside the family)
    if rng.random() < 0.3 and b - a >= 2:
        return f"{a}-{b}/2", "range-step"
    return f"{a}-{b}", "range"


def gen_expression(rng):
    minute, c0 = gen_field(rng, 0, 59, True)
    hour, c1 = gen_field(rng, 0, 23, True)
    if rng.random() < 0.7:
        hour, c1 = "*", "star"
    dom, c2 = ("*", "star")
    dow, c4 = ("*", "star")
    month, c3 = ("*", "star")
    r = rng.random()
    if r < 0.15:
        dom, c2 = gen_field(rng, 1, 28, False)
    elif r < 0.3:
        dow, c4 = gen_field(rng, 0, 6, False)
    if rng.random() < 0.1:
        month, c3 = gen_field(rng, 1, 12, False)
    return f"{minute} {hour} {dom} {month} {dow}", f"{c0}/{c1}/{c2}/{c3}/{c4}"
