"""Offline checkers over the probe log shared by C02 / C05 / C06 / C10."""
from __future__ import annotations

from collections import defaultdict

from vlib.models.lifecycle import Lifecycle, OWNED, RECOVERY


def chain_check(log_events, backend=None):
    """In-lock hook log: per invocation every entry's `prev` must be the previous successful entry's `new`.

    Returns list of (sig, what, witness)."""
    out = []
    last = {}
    for e in log_events:
        if e["kind"] == "registered":
            for i in e["invs"]:
                last[i] = e["new"]
        elif e["kind"] == "transition":
            inv = e["inv"]
            if inv is None:
                continue
            prev = e["prev"]
            exp = last.get(inv)
            if exp is not None and prev is not None and (prev[0] != exp[0] or prev[1] != exp[1] or abs(prev[2] - exp[2]) > 1e-5):
                out.append(("in-lock-chain-broken", f"invocation {inv[:8]}: transition to {e['req']} by {e['runner']} read {prev[:2]} inside its critical section "
                            f"but the last committed record was {exp[:2]}", {"entry": e, "last_committed": exp}))
            if e["error"] is None:
                last[inv] = e["new"]
    return out


def linearize_status_ops(ops, model: Lifecycle, initial, budget=20000):
    """ops: [{call, ret, req, runner, ok}] for ONE invocation; initial=(status, owner).
    Search a linearization consistent with real time whose outcomes match the lifecycle model.
    Returns (True, None) | (False, witness) | (None, 'budget')"""
    n = len(ops)
    if n == 0:
        return True, None
    ops = sorted(ops, key=lambda o: o["call"])
    INF = float("inf")
    rets = [o["ret"] if o["ret"] is not None else INF for o in ops]
    seen = set()
    nodes = [0]

    def rec(done_mask, state):
        if done_mask == (1 << n) - 1:
            return True
        key = (done_mask, state)
        if key in seen:
            return False
        seen.add(key)
        nodes[0] += 1
        if nodes[0] > budget:
            raise TimeoutError
        # minimal ops: not done, and no other not-done op returned before it was called
        for i in range(n):
            if done_mask >> i & 1:
                continue
            if any((not done_mask >> j & 1) and j != i and rets[j] < ops[i]["call"] for j in range(n)):
                continue
            o = ops[i]
            exp = model.step(state[0], state[1], o["req"], o["runner"])
            if o["ok"] is None:
                # open operation (its caller died / raised something else): may or may not have taken effect
                if exp[0] == "ok" and rec(done_mask | 1 << i, (exp[1], exp[2])):
                    return True
                if rec(done_mask | 1 << i, state):
                    return True
                continue
            if exp[0] == "open":
                nxt = (o["req"], o["runner"]) if o["ok"] else state
                if rec(done_mask | 1 << i, nxt):
                    return True
                continue
            if (exp[0] == "ok") != bool(o["ok"]):
                continue
            nxt = (exp[1], exp[2]) if exp[0] == "ok" else state
            if rec(done_mask | 1 << i, nxt):
                return True
        return False

    try:
        ok = rec(0, tuple(initial))
    except TimeoutError:
        return None, "budget"
    if ok:
        return True, None
    return False, {"ops": ops, "initial": list(initial)}


def status_history_check(log_events, model: Lifecycle):
    """Client-boundary oracle: per invocation, the set_invocation_status history must be linearizable."""
    out, inconclusive = [], 0
    per = defaultdict(list)
    initial = {}
    for e in log_events:
        if e["kind"] == "registered":
            for i in e["invs"]:
                initial[i] = (e["new"][0], e["new"][1])
        elif e["kind"] == "set_status":
            per[e["inv"]].append({"call": e["call"], "ret": e["ret"], "req": e["req"], "runner": e["runner"], "ok": e["ok"], "error": e.get("error")})
    for inv, ops in per.items():
        init = initial.get(inv, ("REGISTERED", None))
        ok, wit = linearize_status_ops(ops, model, init)
        if ok is None:
            inconclusive += 1
        elif ok is False:
            claims = [o for o in ops if o["req"] == "PENDING" and o["ok"]]
            kind = "two-claims-no-release" if len(claims) >= 2 else "not-linearizable"
            out.append((f"status-history:{kind}", f"invocation {inv[:8]}: no linearization of {len(ops)} status requests matches the lifecycle model "
                        f"({len(claims)} successful claims by {[c['runner'] for c in claims]})", wit))
    return out, inconclusive


def body_overlap_check(body_events, log_events):
    """Two open [enter, exit] intervals of one invocation without a KILLED / *_RECOVERY transition between the two entries."""
    out = []
    per = defaultdict(list)
    for e in body_events:
        per[e["inv"]].append(e)
    kills = defaultdict(list)
    for e in log_events:
        if e["kind"] == "transition" and e["error"] is None and e["req"] in ("KILLED", "PENDING_RECOVERY", "RUNNING_RECOVERY"):
            kills[e["inv"]].append(e["seq"])
    for inv, evs in per.items():
        open_ = []  # (enter seq, actor)
        for e in sorted(evs, key=lambda x: x["seq"]):
            if e["ev"] == "enter":
                for s0, a0 in open_:
                    if not any(s0 < k < e["seq"] for k in kills[inv]):
                        out.append(("body-overlap", f"invocation {inv[:8] if inv else inv}: body entered by {e['actor']} while {a0}'s execution is still open and no kill/recovery happened in between",
                                    {"first_enter_seq": s0, "second_enter": e}))
                open_.append((e["seq"], e["actor"]))
            elif e["ev"] == "exit":
                open_ = [(s, a) for s, a in open_ if a != e["actor"]]
    return out


def yielded_vs_claims(yielded, log_events):
    """every (runner, invocation) handed out by get_invocations_to_run must match a successful PENDING by that runner, and vice versa."""
    out = []
    claims = defaultdict(int)
    for e in log_events:
        if e["kind"] == "set_status" and e["req"] == "PENDING" and e["ok"]:
            claims[(e["runner"], e["inv"])] += 1
    ys = defaultdict(int)
    for runner, inv in yielded:
        ys[(runner, inv)] += 1
    for k, n in ys.items():
        if claims.get(k, 0) < n:
            out.append(("yielded-without-claim", f"runner {k[0]} received invocation {k[1][:8]} {n}x but claimed it {claims.get(k, 0)}x", {"runner": k[0], "inv": k[1]}))
    return out


def history_check(app, log_events, model: Lifecycle, inv_ids=None, tol=2e-6):
    """C10: after the flush, the stored history of every invocation is exactly its successful status changes.

    Ground truth = registration probe + in-lock transition hook (content and order), each with the runner that
    requested it.  Returns (violations, stats)."""
    out = []
    expected = defaultdict(list)   # inv -> [(status, owner, ts, requester)]
    for e in log_events:
        if e["kind"] == "registered":
            for i in e["invs"]:
                expected[i].append((e["new"][0], e["new"][1], e["new"][2], e["runner"]))
        elif e["kind"] == "transition" and e["error"] is None and e["inv"] is not None:
            expected[e["inv"]].append((e["new"][0], e["new"][1], e["new"][2], e["runner"]))
    # cross-check against the client boundary: every successful public set_invocation_status is one hook entry
    pub = defaultdict(int)
    for e in log_events:
        if e["kind"] == "set_status" and e["ok"]:
            pub[e["inv"]] += 1
    stats = {"invocations": 0, "entries": 0, "nonlinear": 0}
    ids = inv_ids if inv_ids is not None else list(expected)
    for inv in ids:
        exp = expected.get(inv, [])
        try:
            stored = app.state_backend.get_history(inv)
        except Exception as e:
            out.append(("history:get-raised", f"get_history({inv[:8]}) raised {type(e).__name__}: {e}", {}))
            continue
        got = [(h.status_record.status.name, h.status_record.runner_id, h.status_record.timestamp.timestamp(), h.runner_context_id, h.invocation_id) for h in stored]
        stats["invocations"] += 1
        stats["entries"] += len(got)
        if any(s in ("RETRY", "REROUTED", "KILLED", "PENDING_RECOVERY", "RUNNING_RECOVERY", "CONCURRENCY_CONTROLLED") for s, *_ in exp):
            stats["nonlinear"] += 1
        wit = {"inv": inv, "expected": [list(x) for x in exp], "stored": [list(x) for x in got]}
        for g in got:
            if g[4] != inv:
                out.append(("history:filed-under-other-invocation", f"entry of {g[4][:8]} stored under {inv[:8]}", wit))
        # multiset comparison with timestamp tolerance
        rest = list(got)
        missing = []
        for x in exp:
            hit = next((g for g in rest if g[0] == x[0] and g[1] == x[1] and abs(g[2] - x[2]) <= tol and g[3] == x[3]), None)
            if hit is None:
                # distinguish a wrong attribution from a missing entry
                near = next((g for g in rest if g[0] == x[0] and abs(g[2] - x[2]) <= tol), None)
                if near is not None:
                    rest.remove(near)
                    what = "owner" if near[1] != x[1] else "runner"
                    out.append((f"history:wrong-{what}", f"invocation {inv[:8]}: change to {x[0]} by {x[3]} (owner {x[1]}) is recorded with owner {near[1]} / runner {near[3]}", wit))
                else:
                    missing.append(x)
            else:
                rest.remove(hit)
        for x in missing:
            out.append((f"history:missing-entry:{x[0]}", f"invocation {inv[:8]}: successful change to {x[0]} by {x[3]} has no history entry", wit))
        for g in rest:
            out.append((f"history:extra-entry:{g[0]}", f"invocation {inv[:8]}: history entry {g[0]} (runner {g[3]}) does not correspond to any successful change", wit))
        if len(exp) - 1 != pub.get(inv, 0) and pub:
            out.append(("history:hook-vs-public-mismatch", f"invocation {inv[:8]}: {len(exp) - 1} in-lock changes but {pub.get(inv, 0)} successful public status calls", wit))
        # ordered by the time of the change: a documented path from REGISTERED ending at the current status
        seq = [g[0] for g in sorted(got, key=lambda g: g[2])]
        if seq and not missing and not rest:
            if seq[0] != "REGISTERED" or not model.is_path(seq):
                out.append(("history:not-a-path", f"invocation {inv[:8]}: history ordered by change time is {seq}", wit))
            try:
                cur = app.orchestrator.get_invocation_status_record(inv)
                if cur.status.name != seq[-1]:
                    out.append(("history:last-entry-not-current-status", f"invocation {inv[:8]}: last history entry {seq[-1]}, current status {cur.status.name}", wit))
            except KeyError:
                pass
    return out, stats
