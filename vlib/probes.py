"""E1 - probes and the event log.

Wrap points are installed from outside by rebinding module attributes / class methods:

  in-lock transition hook : the name `status_record_transition` in mem_orchestrator and sqlite_orchestrator
                            (called under the per-invocation lock / inside BEGIN IMMEDIATE); the
                            `_atomic_status_transition` wrapper stores the invocation id in a thread-local
  registration            : `_register_new_invocations` of both orchestrators
  client boundary         : BaseOrchestrator.set_invocation_status (call stamp before, return stamp after)
  results                 : BaseStateBackend.set_result / set_exception
  history                 : BaseStateBackend.add_history / add_histories (enqueue side), `_add_histories` (writer side)
  queue                   : broker route_invocation(s) / retrieve_invocation

One process-wide log behind one lock; every wrap point has an evaluation counter.
"""
from __future__ import annotations

import importlib
import threading
from collections import Counter

_tl = threading.local()


class Log:
    def __init__(self, stamp=None):
        self.lock = threading.Lock()
        self.events = []
        self.counters = Counter()
        self.seq = 0
        self.stamp = stamp  # callable returning a logical time (scheduler clock) or None

    def now(self):
        if self.stamp is not None:
            return self.stamp()
        with self.lock:
            self.seq += 1
            return self.seq

    def add(self, kind, **kw):
        with self.lock:
            self.seq += 1
            kw["kind"] = kind
            kw["seq"] = self.seq
            kw["thread"] = threading.current_thread().name
            self.events.append(kw)
            self.counters[kind] += 1
        return kw

    def of(self, kind):
        return [e for e in self.events if e["kind"] == kind]


def _rec(r):
    if r is None:
        return None
    ts = r.timestamp
    return [r.status.name, r.runner_id, ts.timestamp() if hasattr(ts, "timestamp") else float(ts)]


class Probes:
    def __init__(self, log: Log):
        self.log = log
        self._undo = []

    def _set(self, obj, name, new):
        self._undo.append((obj, name, obj.__dict__.get(name, getattr(obj, name)) if isinstance(obj, type) else getattr(obj, name)))
        setattr(obj, name, new)

    def install(self):
        log = self.log
        from pynenc.orchestrator import mem_orchestrator as mo, sqlite_orchestrator as so, base_orchestrator as bo
        from pynenc.state_backend import base_state_backend as bsb
        from pynenc.exceptions import InvocationStatusError

        # ---- in-lock hook
        for mod, cls, backend in ((mo, mo.MemOrchestrator, "mem"), (so, so.SQLiteOrchestrator, "sqlite")):
            real_srt = mod.status_record_transition
            real_ast = cls._atomic_status_transition

            def make(real_srt=real_srt, real_ast=real_ast, backend=backend):
                def srt(current_record, new_status, runner_id):
                    inv = getattr(_tl, "inv", None)
                    try:
                        new = real_srt(current_record, new_status, runner_id)
                    except Exception as e:
                        log.add("transition", backend=backend, inv=inv, prev=_rec(current_record), req=new_status.name, runner=runner_id,
                                new=None, error=type(e).__name__)
                        raise
                    log.add("transition", backend=backend, inv=inv, prev=_rec(current_record), req=new_status.name, runner=runner_id,
                            new=_rec(new), error=None)
                    return new

                def ast(self, invocation_id, status, runner_id=None):
                    prev = getattr(_tl, "inv", None)
                    _tl.inv = invocation_id
                    try:
                        return real_ast(self, invocation_id, status, runner_id)
                    finally:
                        _tl.inv = prev
                return srt, ast
            srt, ast = make()
            self._set(mod, "status_record_transition", srt)
            self._set(cls, "_atomic_status_transition", ast)

            real_reg = cls._register_new_invocations

            def reg(self, invocations, runner_id=None, real_reg=real_reg, backend=backend):
                rec = real_reg(self, invocations, runner_id)
                log.add("registered", backend=backend, invs=[i.invocation_id for i in invocations], new=_rec(rec), runner=runner_id)
                return rec
            self._set(cls, "_register_new_invocations", reg)

        # ---- client boundary
        real_sis = bo.BaseOrchestrator.set_invocation_status

        def sis(self, invocation_id, status, runner_ctx):
            call = log.now()
            try:
                r = real_sis(self, invocation_id, status, runner_ctx)
            except InvocationStatusError as e:
                log.add("set_status", inv=invocation_id, req=status.name, runner=runner_ctx.runner_id, call=call, ret=log.now(), ok=False, error=type(e).__name__)
                raise
            except BaseException as e:
                log.add("set_status", inv=invocation_id, req=status.name, runner=runner_ctx.runner_id, call=call, ret=None, ok=None, error=type(e).__name__)
                raise
            log.add("set_status", inv=invocation_id, req=status.name, runner=runner_ctx.runner_id, call=call, ret=log.now(), ok=True, error=None)
            return r
        self._set(bo.BaseOrchestrator, "set_invocation_status", sis)

        # ---- results
        real_sr, real_se = bsb.BaseStateBackend.set_result, bsb.BaseStateBackend.set_exception

        def set_result(self, invocation_id, result):
            r = real_sr(self, invocation_id, result)
            log.add("result_write", inv=invocation_id)
            return r

        def set_exception(self, invocation_id, exception):
            r = real_se(self, invocation_id, exception)
            log.add("exception_write", inv=invocation_id, exc=type(exception).__name__)
            return r
        self._set(bsb.BaseStateBackend, "set_result", set_result)
        self._set(bsb.BaseStateBackend, "set_exception", set_exception)

        # ---- history enqueue side
        real_ah, real_ahs = bsb.BaseStateBackend.add_history, bsb.BaseStateBackend.add_histories

        def add_history(self, invocation_id, status_record, runner_context):
            log.add("history_enqueued", inv=invocation_id, rec=_rec(status_record), ctx=runner_context.runner_id)
            return real_ah(self, invocation_id, status_record, runner_context)

        def add_histories(self, invocations, status_record, runner_context):
            for i in invocations:
                log.add("history_enqueued", inv=i.invocation_id, rec=_rec(status_record), ctx=runner_context.runner_id)
            return real_ahs(self, invocations, status_record, runner_context)
        self._set(bsb.BaseStateBackend, "add_history", add_history)
        self._set(bsb.BaseStateBackend, "add_histories", add_histories)
        return self

    def uninstall(self):
        for obj, name, old in reversed(self._undo):
            setattr(obj, name, old)
        self._undo = []


def install(log: Log) -> Probes:
    return Probes(log).install()
