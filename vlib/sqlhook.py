"""E4 - hook on pynenc.util.sqlite_utils.SQLiteConnection.execute (the repository's own wrapper).

Modes
  delay : free-running stress - sleep 0..max_ms with probability p *before* a statement
          (i.e. between two statements of one operation), seeded per process.
  count : only count statements (evaluation counter).
  sched : every statement (and commit) is a yield point of the controlled scheduler (vlib.sched);
          'database is locked' becomes a blocked-yield + retry (connections get busy_timeout=0).
The hook also carries the crash failpoint used by C03 (after the k-th commit: os._exit).
"""
from __future__ import annotations

import os
import random
import re
import sqlite3
import time as _time

_state = {"installed": False, "mode": None, "orig_execute": None, "orig_commit": None, "stmts": 0, "commits": 0,
          "rng": None, "p": 0.0, "max_ms": 0.0, "sched": None, "on_commit": None, "orig_create": {}, "log": None,
          "orig_exit": None, "dml": {}, "on_effect": None, "effects": 0}

_DML = re.compile(r"^\s*(INSERT(?:\s+OR\s+\w+)?\s+INTO|UPDATE|DELETE\s+FROM|REPLACE\s+INTO)\s+([\w]+)", re.S | re.I)
_STATUS_WORDS = None


def dml_label(sql, parameters):
    """'UPDATE orchestrator_invocations[PENDING]' style label of a writing statement (None for reads)"""
    global _STATUS_WORDS
    m = _DML.match(sql)
    if not m:
        return None
    verb = m.group(1).split()[0].upper()
    table = m.group(2)
    table = table.split("__", 1)[1] if "__" in table else table
    if _STATUS_WORDS is None:
        try:
            from pynenc.invocation.status import InvocationStatus
            _STATUS_WORDS = {s.value: s.name for s in InvocationStatus}
        except Exception:
            _STATUS_WORDS = {}
    st = ""
    if "invocations" in table and verb in ("UPDATE", "INSERT"):
        for prm in parameters or ():
            if isinstance(prm, str) and prm in _STATUS_WORDS:
                st = f"[{_STATUS_WORDS[prm]}]"
                break
    return f"{verb} {table}{st}"


def _note_effect(conn_id):
    """a transaction with writing statements became durable: one backend effect"""
    st = _state
    labels = st["dml"].pop(conn_id, None)
    if not labels:
        return
    st["effects"] += 1
    cb = st["on_effect"]
    if cb is not None:
        cb(st["effects"], labels)


def _exit(self, exc_type, exc_val, exc_tb):
    r = _state["orig_exit"](self, exc_type, exc_val, exc_tb)
    if exc_type is None:
        _note_effect(id(self._conn))
    else:
        _state["dml"].pop(id(self._conn), None)
    return r

_KIND = re.compile(r"^\s*(\w+)(?:\s+(\w+))?", re.S)


def stmt_label(sql: str) -> str:
    m = _KIND.match(sql)
    if not m:
        return "?"
    a = (m.group(1) or "").upper()
    b = (m.group(2) or "").upper()
    if a in ("BEGIN", "INSERT", "DELETE", "CREATE", "PRAGMA"):
        return f"{a}_{b}" if a in ("BEGIN",) else a
    return a


def _execute(self, sql, parameters=(), /):
    st = _state
    st["stmts"] += 1
    mode = st["mode"]
    if st["on_effect"] is not None:
        lab = dml_label(sql, parameters)
        if lab:
            st["dml"].setdefault(id(self._conn), []).append(lab)
    if mode == "delay":
        if st["rng"].random() < st["p"]:
            _time.sleep(st["rng"].random() * st["max_ms"] / 1000.0)
        return st["orig_execute"](self, sql, parameters)
    if mode == "sched":
        sched = st["sched"]
        if sched is not None and sched.is_actor():
            label = "sql:" + stmt_label(sql)
            sched.yield_point(label)
            while True:
                try:
                    return self._conn.execute(sql, parameters)
                except sqlite3.OperationalError as e:
                    if "locked" in str(e) or "busy" in str(e):
                        sched.yield_point(label + ":locked", blocked=True)
                        continue
                    raise
        return st["orig_execute"](self, sql, parameters)
    return st["orig_execute"](self, sql, parameters)


def _commit(self):
    st = _state
    sched = st["sched"]
    if st["mode"] == "sched" and sched is not None and sched.is_actor():
        sched.yield_point("sql:COMMIT")
        while True:
            try:
                r = self._conn.commit()
                break
            except sqlite3.OperationalError as e:
                if "locked" in str(e) or "busy" in str(e):
                    sched.yield_point("sql:COMMIT:locked", blocked=True)
                    continue
                raise
    else:
        r = self._conn.commit()
    st["commits"] += 1
    cb = st["on_commit"]
    if cb is not None:
        cb(st["commits"])
    _note_effect(id(self._conn))
    return r


def install(mode="count", seed=0, p=0.3, max_ms=2.0, sched=None, on_commit=None, on_effect=None):
    from pynenc.util import sqlite_utils
    st = _state
    if not st["installed"]:
        st["orig_execute"] = sqlite_utils.SQLiteConnection.execute
        sqlite_utils.SQLiteConnection.execute = _execute
        # commit is reached through __getattr__ delegation today; adding the method intercepts it
        st["orig_commit"] = sqlite_utils.SQLiteConnection.__dict__.get("commit")
        sqlite_utils.SQLiteConnection.commit = _commit
        st["orig_exit"] = sqlite_utils.SQLiteConnection.__exit__
        sqlite_utils.SQLiteConnection.__exit__ = _exit
        st["installed"] = True
    st.update(mode=mode, rng=random.Random(seed * 7919 + os.getpid()), p=p, max_ms=max_ms, sched=sched, on_commit=on_commit,
              stmts=0, commits=0, on_effect=on_effect, effects=0, dml={})
    if mode == "sched":
        _patch_busy_timeout(True)
    return st


def uninstall():
    from pynenc.util import sqlite_utils
    st = _state
    if st["installed"]:
        sqlite_utils.SQLiteConnection.execute = st["orig_execute"]
        if st["orig_commit"] is None:
            try:
                del sqlite_utils.SQLiteConnection.commit
            except AttributeError:
                pass
        else:
            sqlite_utils.SQLiteConnection.commit = st["orig_commit"]
        sqlite_utils.SQLiteConnection.__exit__ = st["orig_exit"]
        st["installed"] = False
    _patch_busy_timeout(False)
    st["mode"] = None
    st["sched"] = None
    st["on_commit"] = None
    st["on_effect"] = None


SQLITE_MODULES = [
    "pynenc.orchestrator.sqlite_orchestrator", "pynenc.broker.sqlite_broker", "pynenc.state_backend.sqlite_state_backend",
    "pynenc.trigger.sqlite_trigger", "pynenc.util.sqlite_utils",
]


def _patch_busy_timeout(on: bool):
    """In scheduled runs connections must not wait inside SQLite (a paused lock holder would deadlock)."""
    import importlib
    from pynenc.util import sqlite_utils
    st = _state
    if on and not st["orig_create"]:
        real = sqlite_utils.create_sqlite_connection

        def create_nowait(path):
            sched = st["sched"]
            conn = real(path)
            if sched is not None and sched.is_actor():
                try:
                    conn._conn.execute("PRAGMA busy_timeout=0")
                except Exception:
                    pass
            return conn

        for mn in SQLITE_MODULES:
            try:
                mod = importlib.import_module(mn)
            except Exception:
                continue
            for attr in ("sqlite_conn", "create_sqlite_connection"):
                if getattr(mod, attr, None) is real:
                    st["orig_create"][(mn, attr)] = real
                    setattr(mod, attr, create_nowait)
    elif not on and st["orig_create"]:
        for (mn, attr), real in st["orig_create"].items():
            setattr(importlib.import_module(mn), attr, real)
        st["orig_create"] = {}


def counters():
    return {"sql_statements": _state["stmts"], "sql_commits": _state["commits"]}
