"""Seeded recursive value generators per serializer domain + structural equality (NaN-aware, type exact)."""
from __future__ import annotations

import math

from vtasks.vtypes import Color, Level, Mode, HarnessError, OtherError, Money, Point, Pair, Order, Status

STRINGS = ["", "a", "hello world", "üñí©ødé", "\U0001f600\U0001f680", "line\nbreak\ttab", 'quote"and\\backslash', "  ", "\x00\x01",
           "null", "true", "{}", "[1,2]", " ", "é" * 40, "0", "-1", "NaN"]
FLOATS = [0.0, -0.0, 1.5, -2.25, 1e308, 5e-324, float("inf"), float("-inf"), float("nan"), 0.1, 1 / 3, 1e16, 123456789.123456789]
INTS = [0, 1, -1, 2 ** 31, -(2 ** 63), 2 ** 64 + 1, 10 ** 30, 255]


def gen_scalar(rng, domain):
    r = rng.random()
    if r < 0.08:
        return None
    if r < 0.18:
        return rng.choice([True, False])
    if r < 0.38:
        return rng.choice(INTS) if rng.random() < 0.6 else rng.randrange(-10 ** 6, 10 ** 6)
    if r < 0.55:
        return rng.choice(FLOATS) if rng.random() < 0.7 else rng.uniform(-1e6, 1e6)
    if r < 0.8:
        s = rng.choice(STRINGS)
        if rng.random() < 0.3:
            s = s + "".join(chr(rng.choice([rng.randrange(32, 127), rng.randrange(0xA0, 0x2FF), rng.randrange(0x4E00, 0x4E80), rng.randrange(0x1F600, 0x1F640)])) for _ in range(rng.randrange(0, 12)))
        return s
    if r < 0.9:
        return rng.choice([Color.RED, Color.GREEN, Color.BLUE, Level.LOW, Level.HIGH, Mode.FAST, Mode.SLOW, Order.Status.NEW, Order.Status.DONE, Status.NEW, Order.Inner.Flag.ON])
    if domain == "pickle" and r < 0.95:
        return bytes(rng.randrange(256) for _ in range(rng.randrange(0, 9)))
    return Money(rng.choice([1, 2.5, 10 ** 12]), rng.choice(["EUR", "¥", ""]))


def gen_exception(rng, domain, depth, composed=False):
    cls = rng.choice([ValueError, KeyError, RuntimeError, ZeroDivisionError, TypeError, HarnessError, OtherError])
    nargs = rng.choice([0, 1, 1, 2, 3])
    args = []
    for _ in range(nargs):
        if composed:
            args.append(gen_value(rng, domain, depth + 1, allow_exc=True))
        else:
            args.append(rng.choice([rng.choice(STRINGS), rng.choice(INTS), rng.choice([1.5, -0.0]), None, True]))
    return cls(*args)


def gen_value(rng, domain, depth=0, allow_exc=True):
    """domain: 'json' | 'jsonpickle' | 'pickle'"""
    r = rng.random()
    if depth >= 3 or r < 0.45:
        return gen_scalar(rng, domain)
    if r < 0.62:
        return [gen_value(rng, domain, depth + 1, allow_exc) for _ in range(rng.randrange(0, 5))]
    if r < 0.8:
        d = {}
        for _ in range(rng.randrange(0, 5)):
            k = rng.choice(STRINGS[:12]) + str(rng.randrange(4))
            if domain == "pickle" and rng.random() < 0.3:
                k = rng.choice([rng.randrange(100), (1, "a"), 2.5, None, True])
            d[k] = gen_value(rng, domain, depth + 1, allow_exc)
        return d
    if r < 0.88 and allow_exc:
        return gen_exception(rng, domain, depth, composed=False)
    if domain in ("jsonpickle", "pickle"):
        k = rng.random()
        if k < 0.3:
            return tuple(gen_value(rng, domain, depth + 1, allow_exc) for _ in range(rng.randrange(0, 4)))
        if k < 0.5:
            return {rng.choice([1, 2, 3, "a", "b", 2.5, None]) for _ in range(rng.randrange(0, 4))}
        if k < 0.7:
            return Point(rng.randrange(100), rng.choice([1.5, float("inf"), -0.0]), rng.choice(STRINGS[:6]))
        if k < 0.85:
            return Pair(rng.randrange(100), rng.choice(STRINGS[:6]))
        if domain == "pickle":
            return frozenset(rng.choice([1, "a", 2.5, (1, 2)]) for _ in range(rng.randrange(0, 4)))
    return gen_scalar(rng, domain)


def same(a, b) -> bool:
    """Structural equality: exact types, NaN == NaN, -0.0 != 0.0, exception type and args."""
    if type(a) is not type(b):
        return False
    if isinstance(a, float):
        if math.isnan(a) or math.isnan(b):
            return math.isnan(a) and math.isnan(b)
        return a == b and math.copysign(1.0, a) == math.copysign(1.0, b)
    if isinstance(a, BaseException):
        return same(list(a.args), list(b.args))
    if isinstance(a, Money):
        return same(a.to_json(), b.to_json())
    if isinstance(a, Point):
        return same([a.x, a.y, a.tag], [b.x, b.y, b.tag])
    if isinstance(a, (list, tuple)):
        return len(a) == len(b) and all(same(x, y) for x, y in zip(a, b))
    if isinstance(a, dict):
        if len(a) != len(b):
            return False
        for k, v in a.items():
            # keys: exact lookup then type check of the matching key
            found = [kb for kb in b if type(kb) is type(k) and (kb == k or (isinstance(k, float) and k != k and kb != kb))]
            if not found or not same(v, b[found[0]]):
                return False
        return True
    if isinstance(a, (set, frozenset)):
        return len(a) == len(b) and all(any(same(x, y) for y in b) for x in a)
    return a == b


def shape(v, depth=0) -> str:
    """Canonical shape: type tree (truncated) used for 'distinct' accounting."""
    if depth > 3:
        return "."
    if isinstance(v, BaseException):
        return f"{type(v).__name__}({','.join(shape(x, depth + 1) for x in v.args)})"
    if isinstance(v, (list, tuple, set, frozenset)):
        inner = sorted({shape(x, depth + 1) for x in v})
        return f"{type(v).__name__}[{'|'.join(inner)[:60]}]"
    if isinstance(v, dict):
        inner = sorted({shape(x, depth + 1) for x in v.values()})
        kt = sorted({type(k).__name__ for k in v})
        return f"dict<{'|'.join(kt)}>[{'|'.join(inner)[:60]}]"
    if isinstance(v, float):
        if v != v:
            return "nan"
        if v in (float("inf"), float("-inf")):
            return "inf"
        if v == 0 and math.copysign(1, v) < 0:
            return "-0.0"
        return "float"
    if isinstance(v, str):
        if not v:
            return "str0"
        return "str_ascii" if v.isascii() else "str_uni"
    return type(v).__name__
