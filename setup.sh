#!/bin/bash
# Offline setup: put icontract + deal beside the checks (git-ignored .deps) and byte-compile nothing else.
HERE="$(cd "$(dirname "${BASH_SOURCE[0]}")" && pwd)"
mkdir -p "$HERE/.deps" "$HERE/evidence/replays"
if [ ! -d "$HERE/.deps/icontract" ]; then
  PIP_NO_INDEX=1 /venv/bin/pip install -q --no-index --find-links /opt/veriftools/wheels --target "$HERE/.deps" icontract deal || echo "WARN: icontract/deal not installed; contract-based sub-monitors will be skipped" >&2
fi
exit 0
