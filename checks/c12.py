"""C12 - global services are authorised for at most one runner at any instant.

Oracle: the statement itself, evaluated on the outputs of the real functions
(can_run_atomic_service / calculate_time_slot) at generated instants: a dense grid over three
cycles, every slot boundary and its nextafter neighbours, several epoch offsets; plus a
system-level variant driving should_run_atomic_service on both orchestrators under a frozen
virtual clock.
"""
from __future__ import annotations

import math
import random
from collections import Counter
from datetime import UTC, datetime, timedelta

PID = "C12"
LEVEL = "exploration"
RULE = ("configurations (runner count n, cycle length, margin incl. 0 / tiny / = slot / > slot, epoch offset) x instants "
        "(64-point grid per cycle over 3 cycles, every slot boundary +-{0,1,2} ulps, slot midpoints); one evaluation = one "
        "instant at which can_run_atomic_service was asked for every runner; distinct = (n, cycle, margin class, epoch, "
        "boundary class of the instant); system-level cases = (backend, n, margin class)")
ASSUMPTIONS = [
    "the runner list is the same for every runner at the instant (as the statement says)",
    "margin separation is checked with a tolerance of 8 ulps of the cycle length (float arithmetic of the window bounds)",
    "a window narrower than 1e6 ulps of the epoch is not required to contain a representable instant",
]
REQUIRED_HOOKS = ["instants", "slot_postconditions", "system_instants", "churn_instants", "runners_with_history", "multi_instants", "joins"]


def WORKERS(tier):
    return 14


def gen_cases(tier, seed):
    rng = random.Random(seed)
    thorough = tier == "thorough"
    nmax = 40 if thorough else 12
    intervals = [0.5, 1.0, 5.0, 7.3, 60.0, 1440.0] + [round(rng.uniform(0.2, 90.0), 6) for _ in range(6 if thorough else 2)]
    epochs = [0.0, 1.7e9, 4e9, 1e12]
    cases = []
    ns = list(range(1, nmax + 1)) if not thorough else list(range(1, 21)) + [24, 27, 31, 36, 40]
    for n in ns:
        for iv in intervals:
            slot = iv / n
            margins = [("zero", 0.0), ("tiny", 1e-9), ("small", slot * 0.1), ("default", 1.0), ("almost", slot * 0.999999),
                       ("equal", slot), ("over", slot * 1.5), ("rand", rng.uniform(0, slot * 1.2))]
            for mclass, m in margins:
                cases.append({"kind": "pure", "n": n, "interval": iv, "margin": m, "mclass": mclass, "epochs": epochs,
                              "gridseed": rng.randrange(1 << 30)})
            if n > 1:
                for hist in (("mixed", "overslot", "overcycle") if not thorough else ("mixed", "short", "window", "overrun", "overslot", "overcycle")):
                    mclass, m = margins[rng.randrange(len(margins))]
                    cases.append({"kind": "pure", "n": n, "interval": iv, "margin": m, "mclass": mclass, "epochs": epochs[:2],
                                  "gridseed": rng.randrange(1 << 30), "history": hist})
    for k in range(60 if thorough else 12):
        cases.append({"kind": "churn", "n": rng.randint(2, 9), "interval": rng.choice([1.0, 5.0, 7.3]), "mfrac": rng.choice([0.0, 0.2, 0.5]),
                      "changes": 10, "seed": rng.randrange(1 << 30)})
    for k in range(24 if thorough else 6):
        cases.append({"kind": "multi", "n0": rng.randint(1, 3), "interval": rng.choice([2.0, 5.0]), "mfrac": rng.choice([0.0, 0.2]),
                      "cycles": 4 if thorough else 3, "seed": rng.randrange(1 << 30)})
    for backend in ("mem", "sqlite"):
        for n in ([1, 2, 3, 5, 9] if not thorough else [1, 2, 3, 4, 5, 7, 9, 12]):
            for mclass, mfrac in (("zero", 0.0), ("default", 0.2), ("over", 1.5)):
                cases.append({"kind": "system", "backend": backend, "n": n, "interval": 5.0, "mfrac": mfrac, "mclass": mclass,
                              "seed": rng.randrange(1 << 30)})
    return cases


def ulp_neighbours(x, k=2):
    out = [x]
    up = dn = x
    for _ in range(k):
        up = math.nextafter(up, math.inf)
        dn = math.nextafter(dn, -math.inf)
        out += [up, dn]
    return out


def run_pure(case, V, hooks, distinct):
    from pynenc.orchestrator.atomic_service import ActiveRunnerInfo, can_run_atomic_service, calculate_time_slot
    n, iv, margin, mclass = case["n"], case["interval"], case["margin"], case["mclass"]
    interval_s, margin_s = iv * 60, margin * 60
    slot_s = interval_s / n
    t00 = datetime(2024, 1, 1, tzinfo=UTC)
    # recorded service executions (what BaseRunner stores after each run) of every length class: none, short, about the
    # window, longer than the window, longer than the whole slot, longer than the cycle
    hist = case.get("history", "none")
    hrng = random.Random(case["gridseed"] ^ 0x5eed)

    def last_run(i):
        if hist == "none" or (hist == "mixed" and hrng.random() < 0.3):
            return None, None
        d = {"short": 0.01, "window": 0.95, "overrun": 1.3, "overslot": 2.5, "overcycle": n + 1.5}[hist if hist != "mixed" else
             hrng.choice(["short", "window", "overrun", "overslot", "overcycle"])] * slot_s
        st = t00 + timedelta(seconds=50 + i)
        return st, st + timedelta(seconds=d)
    runners = [ActiveRunnerInfo(f"r{i}", t00 + timedelta(seconds=i), t00 + timedelta(seconds=100), True, *last_run(i)) for i in range(n)]
    hooks["runners_with_history"] += sum(1 for r in runners if r.last_service_start)
    ids = [r.runner_id for r in runners]
    slots = [calculate_time_slot(i, n, iv, margin, runners) for i in range(n)]
    tol = 8 * math.ulp(interval_s)
    fits = margin_s < slot_s - tol  # a margin within float noise of the slot length is a don't-care
    wit = {"n": n, "interval_min": iv, "margin_min": margin, "margin_class": mclass, "history": hist,
           "last_runs_s": [r.get_last_execution_duration_seconds() for r in runners]}
    # post-conditions on the windows themselves
    for i, (s, e) in enumerate(slots):
        hooks["slot_postconditions"] += 1
        if not (s < e):
            V.append({"sig": "empty-window", "what": f"runner {i} of {n}: window [{s},{e}) is empty", "witness": {**wit, "slots": slots}})
        if n > 1 and fits:
            nxt = slots[i + 1][0] if i + 1 < n else interval_s
            if e > nxt - margin_s + tol:
                V.append({"sig": "margin-not-respected" + ("" if hist == "none" else ":with-execution-history"), "what": f"window {i} ends at {e}, next starts at {nxt}, margin {margin_s}s",
                          "witness": {**wit, "slots": slots}})
    rng = random.Random(case["gridseed"])
    evals = 0
    for epoch in case["epochs"]:
        base0 = math.floor(epoch / interval_s) * interval_s
        for c in range(3):
            base = base0 + c * interval_s
            instants = []
            for i, (s, e) in enumerate(slots):
                for b, bname in ((s, "start"), (e, "end")):
                    for t in ulp_neighbours(base + b):
                        instants.append((t, bname, None))
                instants.append((base + (s + e) / 2, "mid", i))
            for g in range(64):
                instants.append((base + interval_s * (g + rng.random()) / 64, "grid", None))
            for t, cls, owner in instants:
                auth = [rid for rid in ids if can_run_atomic_service(rid, runners, t, iv, margin)]
                hooks["instants"] += 1
                evals += 1
                distinct.append([n, iv, mclass, epoch, cls, hist])
                if len(auth) > 1:
                    V.append({"sig": f"two-authorised:margin-{mclass}" + ("" if hist == "none" else ":with-execution-history"),
                              "what": f"n={n} cycle={iv}min margin={margin}min t={t!r}: runners {auth} all authorised",
                              "witness": {**wit, "t": t, "t_hex": float(t).hex(), "authorised": auth, "slots": slots, "instant_class": cls}})
                if n == 1 and not auth:
                    V.append({"sig": "single-runner-refused", "what": f"single active runner refused at t={t}", "witness": {**wit, "t": t}})
                if cls == "mid" and n > 1:
                    s, e = slots[owner]
                    if (e - s) > 1e6 * math.ulp(max(t, 1.0)):
                        if ids[owner] not in auth:
                            V.append({"sig": "no-window-in-cycle",
                                      "what": f"runner {owner} of {n} not authorised at the middle of its window (t={t}, cycle {c})",
                                      "witness": {**wit, "t": t, "slots": slots, "authorised": auth}})
                        hooks["midpoints"] += 1
    return evals


def run_churn(case, V, hooks, distinct):
    """Membership changes inside one process: runners leave and join, positions shift; the same questions are asked again."""
    from pynenc.orchestrator.atomic_service import ActiveRunnerInfo, can_run_atomic_service
    rng = random.Random(case["seed"])
    iv = case["interval"]
    t00 = datetime(2024, 1, 1, tzinfo=UTC)
    serial = 0
    members = []
    for _ in range(case["n"]):
        members.append((f"m{serial}", serial)); serial += 1
    evals = 0
    history = []
    for change in range(case["changes"] + 1):
        n = len(members)
        margin = case["mfrac"] * iv / n
        runners = [ActiveRunnerInfo(rid, t00 + timedelta(seconds=ser), t00 + timedelta(seconds=10_000), True) for rid, ser in members]
        ids = [r.runner_id for r in runners]
        history.append(list(ids))
        interval_s = iv * 60
        slot_s = interval_s / n
        base = 1_700_000_100.0 - (1_700_000_100.0 % interval_s) + interval_s
        for i in range(n):
            for frac, cls in ((0.0, "start"), (0.3, "inside"), (0.999, "late")):
                t = base + (i + frac * (1 - case["mfrac"])) * slot_s
                auth = [rid for rid in ids if can_run_atomic_service(rid, runners, t, iv, margin)]
                hooks["instants"] += 1
                hooks["churn_instants"] += 1
                evals += 1
                distinct.append(["churn", n, case["mfrac"], cls, change > 0])
                wit = {"membership_history": history[-4:], "t": t, "authorised": auth, "interval_min": iv, "margin_min": margin}
                if len(auth) > 1:
                    V.append({"sig": "two-authorised:after-membership-change" if change else "two-authorised:margin-" + str(case["mfrac"]),
                              "what": f"runners {auth} all authorised at t={t} after the runner list changed to {ids}", "witness": wit})
                elif n > 1 and cls == "inside" and auth != [ids[i]]:
                    V.append({"sig": "wrong-runner-authorised:after-membership-change" if change else "wrong-runner-authorised",
                              "what": f"inside the window of position {i} ({ids[i]}) authorised = {auth}; list {ids}", "witness": wit})
                elif n == 1 and not auth:
                    V.append({"sig": "single-runner-refused", "what": "single active runner refused", "witness": wit})
        # change membership: drop one (often the oldest), add one or two new ones, sometimes shrink
        r = rng.random()
        if len(members) > 1 and r < 0.8:
            members.pop(0 if rng.random() < 0.6 else rng.randrange(len(members)))
        if r < 0.6 or len(members) < 2:
            members.append((f"m{serial}", serial)); serial += 1
        if r < 0.15:
            members.append((f"m{serial}", serial)); serial += 1
    return evals


def run_system(case, V, hooks, distinct):
    from vlib import vclock
    from vlib.apps import TmpDir, make_app, runner_ctx
    n, iv = case["n"], case["interval"]
    slot_min = iv / n
    margin = case["mfrac"] * slot_min
    rng = random.Random(case["seed"])
    clock = vclock.VClock(start=1_700_000_000.0)
    inst = vclock.install(clock, only=["pynenc.orchestrator.base_orchestrator", "pynenc.orchestrator.mem_orchestrator",
                                       "pynenc.orchestrator.sqlite_orchestrator"])
    evals = 0
    try:
        with TmpDir() as td:
            app = make_app(case["backend"], td.db(), atomic_service_interval_minutes=iv,
                           atomic_service_spread_margin_minutes=margin, runner_considered_dead_after_minutes=1e6)
            ctxs = [runner_ctx("R", f"run-{i}") for i in range(n)]
            for c in ctxs:  # creation order = index
                clock.advance(1.0)
                app.orchestrator.should_run_atomic_service(c)
            interval_s = iv * 60
            slot_s = interval_s / n
            base = math.floor(clock.peek() / interval_s + 2) * interval_s
            for cyc in range(2):
                for i in range(n):
                    for frac, cls in ((0.0, "start"), (0.25, "inside"), (0.999999, "end")):
                        t = base + cyc * interval_s + (i + frac) * slot_s
                        order = list(range(n))
                        rng.shuffle(order)
                        # heartbeats in shuffled order at distinct earlier instants, then the frozen instant
                        clock.set(t - 5.0)
                        for j in order:
                            app.orchestrator.register_runner_heartbeats([ctxs[j].runner_id], can_run_atomic_service=True)
                        clock.freeze(t)
                        auth = [j for j in order if app.orchestrator.should_run_atomic_service(ctxs[j])]
                        clock.unfreeze()
                        hooks["system_instants"] += 1
                        evals += 1
                        distinct.append(["system", case["backend"], n, case["mclass"], cls])
                        wit = {"backend": case["backend"], "n": n, "interval_min": iv, "margin_min": margin, "t": t, "authorised": auth, "query_order": order}
                        if len(auth) > 1:
                            V.append({"sig": f"system:two-authorised:margin-{case['mclass']}",
                                      "what": f"{case['backend']}: runners {auth} all authorised at the same frozen instant", "witness": wit})
                        if n == 1 and auth != [0]:
                            V.append({"sig": "system:single-runner-refused", "what": "single active runner refused", "witness": wit})
                        if n > 1 and cls == "inside" and case["mfrac"] < 0.7 and auth != [i]:
                            V.append({"sig": "system:wrong-runner-authorised",
                                      "what": f"{case['backend']}: inside the window of the runner created {i}-th, authorised = {auth}", "witness": wit})
    finally:
        inst.uninstall()
    return evals


def run_multi(case, V, hooks, distinct):
    """Every runner asks through its OWN application instance (own orchestrator object, as separate processes have) on one
    shared SQLite file; runners join in the middle of a cycle, record service executions, and stop heart-beating.  At every
    probed instant the store holds one list of active runners (read through an observer instance that never asks), and all
    live runners are asked at that same frozen instant."""
    from vlib import vclock
    from vlib.apps import TmpDir, make_app, runner_ctx, fresh_id
    iv = case["interval"]
    interval_s = iv * 60
    rng = random.Random(case["seed"])
    clock = vclock.VClock(start=1_700_000_000.0)
    inst = vclock.install(clock, only=["pynenc.orchestrator.base_orchestrator", "pynenc.orchestrator.mem_orchestrator",
                                       "pynenc.orchestrator.sqlite_orchestrator"])
    evals = 0
    dead_after_min = iv * 0.45
    try:
        with TmpDir() as td:
            db, app_id = td.db(), fresh_id("multi")
            from pynenc import Pynenc

            def new_instance():
                a = make_app("sqlite", db, app_id=app_id, atomic_service_interval_minutes=iv,
                             atomic_service_spread_margin_minutes=case["mfrac"] * iv / 7, runner_considered_dead_after_minutes=dead_after_min)
                Pynenc._instances.pop(app_id, None)   # the next make_app must build a new object, not hand this one back
                return a
            observer = new_instance()
            members = []      # [name, ctx, app, alive]
            serial = [0]

            def join(t):
                clock.set(t)
                name = f"run-{serial[0]}"; serial[0] += 1
                a = new_instance()
                c = runner_ctx("R", name)
                a.orchestrator.should_run_atomic_service(c)        # first poll = registration
                members.append([name, c, a, True])
                hooks["joins"] += 1
            base = math.floor(clock.peek() / interval_s + 2) * interval_s
            for _ in range(case["n0"]):
                join(base - 30.0 - rng.random() * 20)
            step = interval_s / 24
            k = 0
            t_end = base + case["cycles"] * interval_s
            while True:
                t = base + k * step + rng.random() * step * 0.5
                if t >= t_end:
                    break
                k += 1
                live = [m for m in members if m[3]]
                r = rng.random()
                if r < 0.12 and len(members) < 7:
                    join(t - step * 0.4)
                    live = [m for m in members if m[3]]
                elif r < 0.18 and len(live) > 1:
                    rng.choice(live)[3] = False                     # stops polling; drops out after the dead-after time
                    live = [m for m in members if m[3]]
                    hooks["leaves"] += 1
                elif r < 0.30 and live:
                    m = rng.choice(live)                            # a recorded service execution, sometimes a long one
                    clock.set(t - step * 0.3)
                    d = rng.choice([0.5, 5.0, interval_s * 0.4, interval_s * 1.2])
                    st = datetime.fromtimestamp(t - step * 0.3 - d, tz=UTC)
                    m[2].orchestrator.record_atomic_service_execution(m[1].runner_id, st, st + timedelta(seconds=d))
                    hooks["executions_recorded"] += 1
                clock.set(t - step * 0.2)
                for m in live:
                    m[2].orchestrator.register_runner_heartbeats([m[1].runner_id], can_run_atomic_service=True)
                clock.freeze(t)
                listed = [r_.runner_id for r_ in observer.orchestrator.get_active_runners(can_run_atomic_service=True)]
                order = list(live)
                rng.shuffle(order)
                auth = [m[0] for m in order if m[2].orchestrator.should_run_atomic_service(m[1])]
                listed_after = [r_.runner_id for r_ in observer.orchestrator.get_active_runners(can_run_atomic_service=True)]
                clock.unfreeze()
                hooks["system_instants"] += 1
                hooks["multi_instants"] += 1
                hooks[f"multi_authorised_{min(len(auth), 2)}"] += 1
                evals += 1
                distinct.append(["multi", len(listed), len(live), hooks["joins"] > case["n0"], hooks["leaves"] > 0])
                wit = {"t": t, "time_in_cycle_s": t % interval_s, "interval_min": iv, "active_in_store": listed, "asked": [m[0] for m in order],
                       "authorised": auth, "joined_so_far": [m[0] for m in members]}
                if listed != listed_after:
                    continue   # the list itself changed while asking (cannot happen with a frozen clock; not this property's case)
                if len(auth) > 1:
                    V.append({"sig": "multi:two-authorised:own-instances",
                              "what": f"runners {auth} (each asking through its own application instance on the shared SQLite file) are all "
                                      f"authorised at the same frozen instant; active list in the store: {listed}", "witness": wit})
                if len(listed) == 1 and len(live) == 1 and listed[0].startswith(live[0][0]) and not auth:
                    V.append({"sig": "multi:single-runner-refused", "what": "the only active runner was refused", "witness": wit})
    finally:
        inst.uninstall()
    return evals


def run_case(case):
    hooks = Counter()
    V, distinct = [], []
    if case["kind"] == "pure":
        evals = run_pure(case, V, hooks, distinct)
        hooks["system_instants"] += 0
    elif case["kind"] == "churn":
        evals = run_churn(case, V, hooks, distinct)
    elif case["kind"] == "multi":
        evals = run_multi(case, V, hooks, distinct)
    else:
        evals = run_system(case, V, hooks, distinct)
    seen, out = set(), []
    for v in V:
        if v["sig"] not in seen or len(out) < 6:
            seen.add(v["sig"])
            out.append(v)
    # collapse distinct keys
    dset = {tuple(d) for d in distinct}
    sample = case if case["id"] % 97 == 0 else None
    return {"violations": out[:12], "distinct": [list(d) for d in dset], "hooks": dict(hooks), "events": evals,
            "evaluations": evals, "sample": sample}
