"""C13 - a satisfied trigger condition launches its task exactly once.

acct  : configurations of 1-3 conditions of mixed kinds (event, status, result, exception; AND / OR; argument providers that put the
        occurrence's own id into the launch arguments, so attribution is by value) x histories of occurrences with 0-4 pending at once;
        launches are read from the orchestrator (invocations of the triggered task + stored arguments) after each trigger_loop_iteration
conc  : two trigger-loop actors (each with its own trigger store instance / local cache, as two runner processes have) plus an occurrence
        reporter under the controlled scheduler (mem/line, sqlite/statement)
cron  : expressions of a generated family x (window, min interval, tolerance, strict) x poll sequences fed through
        check_time_based_triggers(current_time=...), one or two trigger instances sharing the store, against a brute-force minute enumerator
"""
from __future__ import annotations

import hashlib
import os
import random
from collections import Counter, defaultdict
from datetime import UTC, datetime, timedelta

from vlib.apps import TmpDir, make_app, runner_ctx, set_thread_ctx, clear_thread_ctx, flush_history
from vlib.models import cron as cronmodel

PID = "C13"
LEVEL = "exploration"
RULE = ("acct: trigger configurations (kinds x AND/OR x providers) x occurrence histories (0-4 pending per condition at an iteration), distinct = "
        "(configuration shape, pending-count vector); conc: schedules of two loop iterations + reporter, distinct = schedule signature; cron: "
        "(expression class, settings, poll pattern, one/two instances), distinct = (expression, settings, pattern)")
ASSUMPTIONS = [
    "an occurrence is attributed to a launch by value: the providers put the occurrence's own id (event token / source invocation id) into the launch arguments",
    "AND: the statement fixes 'launches only when every condition has a pending occurrence, and then consumes them'; how many launches result from several pending occurrences per condition is not asserted",
    "cron 'must yield' is asserted only where the statement is unambiguous: window shorter than the schedule's period, the scheduled minute not served yet, previous firing at least the minimum interval old",
]
REQUIRED_HOOKS = ["occurrences", "loop_iterations", "launches_attributed", "cron_polls", "conc_schedules", "conc_cron_schedules", "conc_cron_conclusive"]


def WORKERS(tier):
    return 14


def TIMEOUT(tier):
    return 900 if tier == "quick" else 5400


KINDS = ["event", "status", "result", "exception"]


def gen_cases(tier, seed):
    thorough = tier == "thorough"
    cases = []
    n = 2000 if thorough else 200
    per = 50 if thorough else 10
    for i in range(n // per):
        cases.append({"kind": "acct", "seed": seed * 30011 + i, "n": per})
    for backend in ("mem", "sqlite"):
        for logic in ("single", "or"):
            cases.append({"kind": "conc", "backend": backend, "logic": logic, "strategy": "dfs", "p": 3 if thorough else 2, "seed": seed, "budget": 600 if thorough else 40})
            cases.append({"kind": "conc", "backend": backend, "logic": logic, "strategy": "pct", "count": 2500 if thorough else 75, "seed": seed * 17 + 1, "budget": 300 if thorough else 25})
        # the two loops alone (no concurrent reporter): the smaller schedule space lets the bounded-preemption search go one level deeper
        cases.append({"kind": "conc", "backend": backend, "logic": "single", "strategy": "dfs", "p": 3 if thorough else 2, "seed": seed, "budget": 900 if thorough else 90, "reporter": False, "warm": True})
        if thorough:
            cases.append({"kind": "conc", "backend": backend, "logic": "or", "strategy": "dfs", "p": 2, "seed": seed, "budget": 600, "reporter": True, "warm": True})
        # a runner re-registers the task's triggers (start-up of another process) while the loops serve a pending occurrence
        cases.append({"kind": "conc", "backend": backend, "logic": "single", "strategy": "dfs", "p": 3 if thorough else 2, "seed": seed, "budget": 300 if thorough else 40, "reporter": False,
                      "registrar": True, "warm": False})
        cases.append({"kind": "conc", "backend": backend, "logic": "single", "strategy": "pct", "count": 1500 if thorough else 60, "seed": seed * 23 + 5, "budget": 200 if thorough else 25, "reporter": False,
                      "registrar": True, "warm": True})
        # one scheduled minute polled by two runners at once: on a store whose cron never fired and on one that served the minute before
        for warm in (False, True):
            cases.append({"kind": "conccron", "backend": backend, "strategy": "dfs", "p": 3 if thorough else 2, "seed": seed, "budget": 300 if thorough else 30, "warm": warm})
            cases.append({"kind": "conccron", "backend": backend, "strategy": "pct", "count": 1500 if thorough else 60, "seed": seed * 19 + 3, "budget": 200 if thorough else 20, "warm": warm})
    for i in range(6 if thorough else 2):
        cases.append({"kind": "shared", "seed": seed * 30011 + 900 + i, "n": 40 if thorough else 8})
    nc = 20000 if thorough else 300
    perc = 250 if thorough else 25
    for i in range(nc // perc):
        cases.append({"kind": "cron", "seed": seed * 50021 + i, "n": perc})
    return cases


# ------------------------------------------------------------------------------------------------ configuration


def build_config(app, rng, force=None):
    """registers source/target tasks and one trigger on `target`; returns description"""
    from pynenc.trigger.trigger_builder import TriggerBuilder
    from vtasks import trig
    src_ok = app.task(trig.src_ok)
    src_fail = app.task(trig.src_fail)
    src_other = app.task(trig.src_other)
    nconds = force["n"] if force else rng.choice([1, 1, 2, 3])
    kinds = force["kinds"] if force else [rng.choice(KINDS) for _ in range(nconds)]
    # at most one condition per kind (keeps attribution by kind unambiguous)
    kinds = list(dict.fromkeys(kinds))
    logic = force["logic"] if force else (rng.choice(["and", "or"]) if len(kinds) > 1 else rng.choice(["default", "or"]))
    b = TriggerBuilder()
    for k in kinds:
        if k == "event":
            b.on_event("c13_event")
        elif k == "status":
            b.on_status(src_ok, "success")
        elif k == "result":
            b.on_any_result(src_other)
        else:
            b.on_exception(src_fail)
    if logic in ("and", "or"):
        b.with_logic(logic)
    providers = force.get("providers", True) if force else rng.random() < 0.8
    if providers and (len(kinds) == 1 or logic == "or"):
        for k in kinds:
            getattr(b, f"with_args_from_{k}")(getattr(trig, f"args_from_{k}"))
    target = app.task(trig.target, triggers=[b])
    app.register_deferred_triggers()
    return {"kinds": kinds, "logic": logic, "builder": b, "providers": bool(providers and (len(kinds) == 1 or logic == "or")), "tasks": {"src_ok": src_ok, "src_fail": src_fail, "src_other": src_other, "target": target}}


def make_occurrence(app, cfg, kind, n, ctx):
    """produce one occurrence of `kind`; returns its token (what an attributed launch must carry)"""
    t = cfg["tasks"]
    if kind == "event":
        tok = f"ev-{n}"
        app.trigger.emit_event("c13_event", {"token": tok})
        return tok
    task = {"status": t["src_ok"], "result": t["src_other"], "exception": t["src_fail"]}[kind]
    inv = task(n)
    set_thread_ctx(app, ctx)
    try:
        for _ in range(50):   # drain until the source invocation has run (launched targets queued earlier come first; they are harmless)
            if app.orchestrator.get_invocation_status(inv.invocation_id).is_final():
                break
            for w in list(app.orchestrator.get_invocations_to_run(5, ctx)):
                try:
                    w.run(ctx)
                except Exception:
                    pass
    finally:
        clear_thread_ctx(app)
    return inv.invocation_id


def launches(app, cfg):
    t = cfg["tasks"]["target"]
    out = []
    for i in app.orchestrator.get_task_invocation_ids(t.task_id):
        inv = app.state_backend.get_invocation(i)
        kw = inv.arguments.kwargs
        out.append((i, kw.get("token"), kw.get("kind")))
    return out


def run_acct(case, V, hooks, distinct):
    rng = random.Random(case["seed"])
    with TmpDir() as td:
        for n in range(case["n"]):
            backend = ("mem", "sqlite")[n % 2]
            app = make_app(backend, td.db(f"a{n % 6}.sqlite"), app_id=f"c13a{case['seed']}_{n}", cached_status_time=0.0)
            cfg = build_config(app, rng)
            ctx = runner_ctx("R", "runner-c13")
            kinds, logic = cfg["kinds"], cfg["logic"]
            per_occurrence = len(kinds) == 1 or logic == "or"
            seen_launch_ids = set()
            occ_counter = 0
            trail = []
            for rnd in range(rng.randint(2, 5)):
                pending = {}
                for k in kinds:
                    cnt = rng.choice([0, 1, 1, 2, 3, 4])
                    toks = []
                    for _ in range(cnt):
                        occ_counter += 1
                        toks.append(make_occurrence(app, cfg, k, occ_counter, ctx))
                        hooks["occurrences"] += 1
                    pending[k] = toks
                trail.append({k: len(v) for k, v in pending.items()})
                flush_history(app)
                set_thread_ctx(app, ctx)
                try:
                    app.trigger.trigger_loop_iteration()
                finally:
                    clear_thread_ctx(app)
                hooks["loop_iterations"] += 1
                new = [l for l in launches(app, cfg) if l[0] not in seen_launch_ids]
                seen_launch_ids |= {l[0] for l in new}
                wit = {"backend": backend, "kinds": kinds, "logic": logic, "providers": cfg["providers"], "pending_this_round": {k: len(v) for k, v in pending.items()},
                       "new_launches": [list(l[1:]) for l in new], "rounds": trail}
                shape = [tuple(kinds), logic, cfg["providers"], tuple(sorted(len(v) for v in pending.values()))]
                distinct.append(shape)
                if per_occurrence:
                    total = sum(len(v) for v in pending.values())
                    if cfg["providers"]:
                        got = Counter(l[1] for l in new)
                        for k, toks in pending.items():
                            for tok in toks:
                                hooks["launches_attributed"] += 1
                                c = got.get(tok, 0)
                                if c != 1:
                                    many = "several-pending" if total > 1 else "single-pending"
                                    V.append({"sig": f"occurrence-{'not-launched' if c == 0 else 'launched-more-than-once'}:{k}:{'default-and' if logic == 'default' else logic}:{many}",
                                              "what": f"{backend}: a {k} occurrence got {c} launch(es) attributed to it ({total} occurrences pending, {len(new)} launches in all)", "witness": wit})
                        extra = [l for l in new if l[1] not in {t for v in pending.values() for t in v}]
                        for l in extra:
                            V.append({"sig": "launch-with-foreign-arguments", "what": f"{backend}: a launch carries token {l[1]!r} which is not one of this round's occurrences", "witness": wit})
                    else:
                        hooks["launches_attributed"] += total
                        if len(new) != total:
                            many = "several-pending" if total > 1 else "single-pending"
                            V.append({"sig": f"launch-count:{'fewer' if len(new) < total else 'more'}-than-occurrences:{'default-and' if logic == 'default' else logic}:{many}",
                                      "what": f"{backend}: {total} occurrences pending, {len(new)} launches", "witness": wit})
                    left = app.trigger.get_valid_conditions()
                    if left:
                        V.append({"sig": "occurrence-left-pending", "what": f"{backend}: {len(left)} valid condition(s) still pending after every dependant trigger ran", "witness": wit})
                else:
                    allp = all(len(v) > 0 for v in pending.values())
                    carried = getattr(app, "_c13_carry", set())
                    have = {k for k, v in pending.items() if v} | carried
                    allp = all(k in have for k in kinds)
                    hooks["launches_attributed"] += 1
                    if not allp and new:
                        V.append({"sig": "and-launched-without-all-conditions", "what": f"{backend}: AND trigger launched although {[k for k in kinds if k not in have]} had no pending occurrence", "witness": wit})
                    if allp and not new:
                        V.append({"sig": "and-not-launched-with-all-conditions", "what": f"{backend}: every condition had a pending occurrence but the AND trigger did not launch", "witness": wit})
                    left = app.trigger.get_valid_conditions()
                    if allp and left:
                        V.append({"sig": "and-did-not-consume-occurrences", "what": f"{backend}: {len(left)} occurrence(s) still pending after the AND launch", "witness": wit})
                    app._c13_carry = set() if allp else have
            flush_history(app)
    for k in ("cron_polls", "conc_schedules"):
        hooks[k] += 0


# ------------------------------------------------------------------------------------------------ concurrent loops


def run_conc(case, V, hooks, distinct):
    from vlib import sched as S, shims as SH, linemon
    backend, logic = case["backend"], case["logic"]
    td = TmpDir()
    counter = {"n": 0}
    totals = Counter()

    def scenario(sc):
        counter["n"] += 1
        db = td.db(f"c{counter['n'] % 30}.sqlite")
        for ext in ("", "-wal", "-shm"):
            try:
                os.remove(db + ext)
            except FileNotFoundError:
                pass
        app = make_app(backend, db, app_id=f"c13c{backend}", cached_status_time=0.0)
        cfg = build_config(app, random.Random(1), force={"n": 1, "kinds": ["event"], "logic": "default" if logic == "single" else "or", "providers": True})
        # a second "runner process": its own app object and trigger instance (own local cache) on the same stores
        if backend == "sqlite":
            app2 = make_app(backend, db, app_id=f"c13c{backend}", cached_status_time=0.0)
            cfg2 = build_config(app2, random.Random(1), force={"n": 1, "kinds": ["event"], "logic": "default" if logic == "single" else "or", "providers": True})
        else:
            app2, cfg2 = app, cfg   # in-memory stores live in the app object: two loop threads of one process
        ctxs = [runner_ctx("R", "loop-0"), runner_ctx("R", "loop-1")]
        if case.get("warm", False):
            # not a fresh store: an earlier occurrence was already served (claims, cleared conditions and caches are populated)
            app.trigger.emit_event("c13_event", {"token": "ev-warm"})
            set_thread_ctx(app, ctxs[0])
            try:
                app.trigger.trigger_loop_iteration()
            finally:
                clear_thread_ctx(app)
        app.trigger.emit_event("c13_event", {"token": "ev-0"})
        flush_history(app)

        def loop(i):
            a = (app, app2)[i]

            def body():
                set_thread_ctx(a, ctxs[i])
                try:
                    a.trigger.trigger_loop_iteration()
                finally:
                    clear_thread_ctx(a)
            return body
        sc.spawn("loop0", loop(0))
        sc.spawn("loop1", loop(1))

        def reporter():
            app.trigger.emit_event("c13_event", {"token": "ev-late"})
        if case.get("reporter", True):
            sc.spawn("reporter", reporter)

        def registrar():
            # another runner (re)starts while the loops run: registering a task's triggers again replaces its stored definitions
            app2.trigger.register_task_triggers(cfg2["tasks"]["target"], [cfg2["builder"]])
        if case.get("registrar", False):
            sc.spawn("registrar", registrar)

        def fin():
            flush_history(app)
            # one more quiet iteration so that the late occurrence is served
            set_thread_ctx(app, ctxs[0])
            try:
                app.trigger.trigger_loop_iteration()
            finally:
                clear_thread_ctx(app)
            got = Counter(l[1] for l in launches(app, cfg))
            totals["runs"] += 1
            out = []
            for tok in ("ev-0", "ev-late") if case.get("reporter", True) else ("ev-0",):
                if got.get(tok, 0) != 1:
                    out.append((f"occurrence-{'not-launched' if got.get(tok, 0) == 0 else 'launched-more-than-once'}:event:{logic}:concurrent-loops", f"{backend}: occurrence {tok} got {got.get(tok, 0)} launches with two concurrent trigger loops", {"launch_tokens": dict(got)}))
            return out or None
        return fin

    shims = SH.Shims() if backend == "mem" else SH.Shims(threading_modules=["pynenc.state_backend.base_state_backend"], time_modules=["pynenc.util.sqlite_utils"])
    # every method of the in-memory store is preemptible line by line (also helpers a refactoring may add), plus the loop itself
    # (the loop body between two store calls only touches thread-local data: a preemption there is equivalent to one at the next store call)
    lines = ["pynenc.trigger.mem_trigger:MemTrigger.*"] if backend == "mem" else None
    try:
        res = S.explore(scenario, strategy=case["strategy"], max_preemptions=case.get("p", 1), n=case.get("count", 50), seed=case["seed"],
                        sql=(backend == "sqlite"), lines=lines, shims=shims, max_steps=8000, time_budget=case.get("budget"))
    finally:
        td.close()
    hooks["conc_schedules"] += res["schedules"]
    for k in ("occurrences", "loop_iterations", "launches_attributed", "cron_polls"):
        hooks[k] += 0
    hooks["occurrences"] += 2 * res["schedules"]
    hooks["loop_iterations"] += 3 * res["schedules"]
    hooks["launches_attributed"] += 2 * res["schedules"]
    for s_ in res["signatures_nontrivial"]:
        distinct.append(["conc", backend, logic, s_])
    for r in res["results"]:
        base = {"backend": backend, "logic": logic, "choices": r["choices"], "trace_tail": r["trace"][-30:]}
        if r.get("deadlock"):
            V.append({"sig": f"deadlock:{backend}", "what": "every live actor is blocked", "witness": base})
        if r.get("error"):
            # an exception that escapes a trigger loop iteration / an event report under some interleaving (the occurrence it was serving is lost or served late)
            etype = r["error"].split(":")[1].strip().split()[0] if ":" in r["error"] else "error"
            V.append({"sig": f"trigger-loop-raised:{etype}:{backend}", "what": r["error"][:400], "witness": base})
        for sig, what, wit in (r.get("out") or []):
            V.append({"sig": f"{sig}:{backend}", "what": what, "witness": {**wit, **base}})
    return res.get("inconclusive")


def run_conc_cron(case, V, hooks, distinct):
    """Two runners poll the time-based triggers inside the same scheduled minute, under explored interleavings: the minute yields
    one occurrence and one launch, on a fresh store (the cron never fired) as well as on a warm one (the previous minute was served)."""
    from vlib import sched as S, shims as SH
    from pynenc.trigger.conditions.cron import CronCondition
    from pynenc.trigger.trigger_builder import TriggerBuilder
    from vtasks import trig
    backend, warm = case["backend"], case["warm"]
    td = TmpDir()
    counter = {"n": 0}
    minute = datetime(2025, 3, 3, 10, 17, 0, tzinfo=UTC)

    def scenario(sc):
        counter["n"] += 1
        db = td.db(f"cc{counter['n'] % 30}.sqlite")
        for ext in ("", "-wal", "-shm"):
            try:
                os.remove(db + ext)
            except FileNotFoundError:
                pass

        def instance():
            a = make_app(backend, db, app_id=f"c13cc{backend}", cached_status_time=0.0)
            b = TriggerBuilder()
            b.add_condition(CronCondition("* * * * *", check_window_seconds=60, min_interval_seconds=50, precision_tolerance_seconds=30))
            t_ = a.task(trig.cron_target, triggers=[b])
            a.register_deferred_triggers()
            return a, t_
        app, target = instance()
        app2 = instance()[0] if backend == "sqlite" else app
        ctxs = [runner_ctx("R", "loop-0"), runner_ctx("R", "loop-1")]

        def quiet_iteration(at):
            """one loop iteration whose own time-based poll happens at the (virtual) instant `at`, not at the wall-clock time"""
            real = app.trigger.check_time_based_triggers
            app.trigger.check_time_based_triggers = lambda current_time=None: real(current_time=at)
            set_thread_ctx(app, ctxs[0])
            try:
                app.trigger.trigger_loop_iteration()
            finally:
                clear_thread_ctx(app)
                del app.trigger.check_time_based_triggers
        base_launches = 0
        if warm:
            app.trigger.check_time_based_triggers(current_time=minute - timedelta(seconds=57))
            quiet_iteration(minute - timedelta(seconds=56))
            base_launches = len(list(app.orchestrator.get_task_invocation_ids(target.task_id)))
        before = set(app.trigger.get_valid_conditions())
        flush_history(app)

        def poll(i):
            a = (app, app2)[i]
            pt = minute + timedelta(seconds=3.0 + 0.4 * i)

            def body():
                set_thread_ctx(a, ctxs[i])
                try:
                    a.trigger.check_time_based_triggers(current_time=pt)
                finally:
                    clear_thread_ctx(a)
            return body
        sc.spawn("poll0", poll(0))
        sc.spawn("poll1", poll(1))

        def fin():
            flush_history(app)
            occ = [k for k in app.trigger.get_valid_conditions() if k not in before]
            quiet_iteration(minute + timedelta(seconds=5))
            n_l = len(list(app.orchestrator.get_task_invocation_ids(target.task_id))) - base_launches
            out = []
            state = "warm" if warm else "never-fired"
            if warm and base_launches != 1:
                return None    # the warm-up did not serve the previous minute: nothing to conclude from this run
            hooks["conc_cron_conclusive"] += 1
            if len(occ) != 1:
                out.append((f"cron:{'two-occurrences-for-one-minute' if len(occ) > 1 else 'tick-missed'}:concurrent-polls:{state}",
                            f"{backend}: two runners polled inside one scheduled minute, {len(occ)} occurrences recorded", {"occurrences": len(occ)}))
            if n_l != 1:
                out.append((f"occurrence-{'not-launched' if n_l == 0 else 'launched-more-than-once'}:cron:concurrent-polls:{state}",
                            f"{backend}: one scheduled minute polled by two runners led to {n_l} launches", {"launches": n_l}))
            return out or None
        return fin

    shims = SH.Shims() if backend == "mem" else SH.Shims(threading_modules=["pynenc.state_backend.base_state_backend"], time_modules=["pynenc.util.sqlite_utils"])
    lines = ["pynenc.trigger.mem_trigger:MemTrigger.*"] if backend == "mem" else None
    try:
        res = S.explore(scenario, strategy=case["strategy"], max_preemptions=case.get("p", 1), n=case.get("count", 50), seed=case["seed"],
                        sql=(backend == "sqlite"), lines=lines, shims=shims, max_steps=8000, time_budget=case.get("budget"))
    finally:
        td.close()
    hooks["conc_schedules"] += res["schedules"]
    hooks["conc_cron_schedules"] += res["schedules"]
    hooks["cron_polls"] += 2 * res["schedules"]
    for k in ("occurrences", "loop_iterations", "launches_attributed"):
        hooks[k] += 0
    hooks["loop_iterations"] += res["schedules"]
    for s_ in res["signatures_nontrivial"]:
        distinct.append(["conccron", backend, warm, s_])
    for r in res["results"]:
        base = {"backend": backend, "warm": warm, "choices": r["choices"], "trace_tail": r["trace"][-30:]}
        if r.get("deadlock"):
            V.append({"sig": f"deadlock:{backend}", "what": "every live actor is blocked", "witness": base})
        if r.get("error"):
            etype = r["error"].split(":")[1].strip().split()[0] if ":" in r["error"] else "error"
            V.append({"sig": f"cron-poll-raised:{etype}:{backend}", "what": r["error"][:400], "witness": base})
        for sig, what, wit in (r.get("out") or []):
            V.append({"sig": f"{sig}:{backend}", "what": what, "witness": {**wit, **base}})
    return res.get("inconclusive")


# ------------------------------------------------------------------------------------------------ cron


def run_cron(case, V, hooks, distinct):
    from pynenc.trigger.conditions.cron import CronCondition
    from pynenc.trigger.trigger_builder import TriggerBuilder
    from vtasks import trig
    rng = random.Random(case["seed"])
    with TmpDir() as td:
        for n in range(case["n"]):
            backend = ("mem", "sqlite")[n % 2]
            expr, eclass = cronmodel.gen_expression(rng)
            window = rng.choice([60, 60, 30, 20, 90])
            min_interval = rng.choice([50, 50, 10, 120])
            tol = rng.choice([30, 5])
            strict = rng.random() < 0.2
            two = rng.random() < 0.4
            app = make_app(backend, td.db(f"k{n % 6}.sqlite"), app_id=f"c13k{case['seed']}_{n}", cached_status_time=0.0)
            cond = CronCondition(expr, check_window_seconds=window, min_interval_seconds=min_interval, precision_tolerance_seconds=tol, strict_timing=strict)
            b = TriggerBuilder()
            b.add_condition(cond)
            target = app.task(trig.cron_target, triggers=[b])
            app.register_deferred_triggers()
            insts = [app]
            if two and backend == "sqlite":
                app2 = make_app(backend, td.db(f"k{n % 6}.sqlite"), app_id=f"c13k{case['seed']}_{n}", cached_status_time=0.0)
                b2 = TriggerBuilder()
                b2.add_condition(CronCondition(expr, check_window_seconds=window, min_interval_seconds=min_interval, precision_tolerance_seconds=tol, strict_timing=strict))
                app2.task(trig.cron_target, triggers=[b2])
                late_register = rng.random() < 0.5
                if not late_register:
                    app2.register_deferred_triggers()
                insts.append(app2)
            else:
                late_register = False
            pattern = rng.choice(["regular", "jittered", "bursty", "gaps", "daygaps"])
            t = datetime(2025, 3, 1, 0, 0, 0, tzinfo=UTC) + timedelta(seconds=rng.randrange(0, 86400 * 3))
            sched_minutes = cronmodel.Matcher(expr)
            period_s = sched_minutes.min_gap_seconds(t, horizon_minutes=3 * 24 * 60)
            polls = []
            for k in range(60):
                if pattern == "regular":
                    t += timedelta(seconds=30)
                elif pattern == "jittered":
                    t += timedelta(seconds=rng.uniform(5, 55))
                elif pattern == "bursty":
                    t += timedelta(seconds=rng.choice([0.2, 0.5, 1, 1, 45, 70]))
                elif pattern == "daygaps":
                    # previous firing whole days (+ a few seconds) old: downtime, daily / weekly schedules
                    t += timedelta(days=rng.choice([0, 0, 1, 1, 2, 7]), seconds=rng.choice([0, 3, 15, 30, 49, 50, 61, 3600 + 20]))
                else:
                    t += timedelta(seconds=rng.choice([20, 40, 61, 300, 3700, 90000]))
                polls.append(t)
            occurrences = []   # (poll time)
            served = {}        # scheduled minute -> poll time
            last_fire = None
            registered_late = False
            wit0 = {"backend": backend, "expression": expr, "window": window, "min_interval": min_interval, "tolerance": tol, "strict": strict, "pattern": pattern, "instances": len(insts)}
            for k, pt in enumerate(polls):
                inst = insts[k % len(insts)]
                if late_register and inst is not app and not registered_late and last_fire is not None:
                    inst.register_deferred_triggers()
                    registered_late = True
                elif late_register and inst is not app and not registered_late:
                    inst = app
                before = set(app.trigger.get_valid_conditions())
                inst.trigger.check_time_based_triggers(current_time=pt)
                hooks["cron_polls"] += 1
                after = app.trigger.get_valid_conditions()
                fired = [v for kk, v in after.items() if kk not in before]
                m = sched_minutes.last_scheduled_at_or_before(pt)
                inside = m is not None and 0 <= (pt - m).total_seconds() <= window
                wit = {**wit0, "poll": pt.isoformat(), "poll_index": k, "scheduled_minute": m.isoformat() if m else None, "previous_firing": last_fire.isoformat() if last_fire else None,
                       "seconds_after_minute": (pt - m).total_seconds() if m else None}
                if len(fired) > 1:
                    V.append({"sig": "cron:two-occurrences-at-one-poll", "what": "one poll recorded two occurrences", "witness": wit})
                if fired:
                    if not inside:
                        late = (pt - m).total_seconds() if m else None
                        cls = "same-minute-beyond-window" if m is not None and late is not None and late < 60 else "outside-every-window"
                        V.append({"sig": f"cron:occurrence-{cls}", "what": f"poll at {pt.isoformat()} is {late}s after the scheduled minute {m} (window {window}s) but yielded an occurrence", "witness": wit})
                    elif strict and (pt - m).total_seconds() > tol:
                        V.append({"sig": "cron:strict-tolerance-ignored", "what": f"strict mode: poll {(pt - m).total_seconds()}s after the minute (tolerance {tol}s) yielded an occurrence", "witness": wit})
                    if m in served:
                        V.append({"sig": "cron:two-occurrences-for-one-minute" + (":two-instances" if len(insts) > 1 else ""), "what": f"scheduled minute {m} yielded a second occurrence (first at {served[m].isoformat()})", "witness": wit})
                    if last_fire is not None and (pt - last_fire).total_seconds() < min_interval:
                        V.append({"sig": "cron:closer-than-min-interval" + (":two-instances" if len(insts) > 1 else ""), "what": f"occurrences {(pt - last_fire).total_seconds()}s apart (minimum {min_interval}s)", "witness": wit})
                    served[m] = pt
                    last_fire = pt
                    occurrences.append(pt)
                    # consume it (what the loop does after launching)
                    app.trigger.clear_valid_conditions(list(after.values()))
                else:
                    must = (inside and m not in served and window < period_s and (last_fire is None or (pt - last_fire).total_seconds() >= min_interval)
                            and (not strict or (pt - m).total_seconds() <= tol)
                            and (last_fire is None or m > last_fire))
                    if must:
                        V.append({"sig": "cron:tick-missed" + (":two-instances" if len(insts) > 1 else ""), "what": f"poll at {pt.isoformat()} is inside the window of the unserved minute {m} and the previous firing is old enough, but no occurrence", "witness": wit})
            distinct.append([eclass, window, min_interval, strict, pattern, len(insts), backend])
    for k in ("occurrences", "loop_iterations", "launches_attributed", "conc_schedules"):
        hooks[k] += 0


def run_shared(case, V, hooks, distinct):
    """two triggers share a condition: T1 on the event alone, T2 on the event AND a status; occurrences arrive in every order with loop
    iterations in between.  Every trigger that depends on the shared occurrence launches exactly once; afterwards nothing stays pending."""
    from pynenc.trigger.trigger_builder import TriggerBuilder
    from vtasks import trig
    rng = random.Random(case["seed"])
    orders = [["A", "loop", "B", "loop"], ["B", "loop", "A", "loop"], ["A", "B", "loop"], ["A", "loop", "loop", "B", "loop", "loop"], ["B", "loop", "loop", "A", "loop"]]
    with TmpDir() as td:
        for n in range(case["n"]):
            backend = ("mem", "sqlite")[n % 2]
            order = orders[(n // 2) % len(orders)]
            app = make_app(backend, td.db(f"s{n % 6}.sqlite"), app_id=f"c13s{case['seed']}_{n}", cached_status_time=0.0)
            src_ok = app.task(trig.src_ok)
            cfg = {"tasks": {"src_ok": src_ok, "src_other": app.task(trig.src_other), "src_fail": app.task(trig.src_fail)}}
            t1 = app.task(trig.target, triggers=[TriggerBuilder().on_event("c13_event").with_args_from_event(trig.args_from_event)])
            t2 = app.task(trig.target2, triggers=[TriggerBuilder().on_event("c13_event").on_status(src_ok, "success").with_logic("and")])
            app.register_deferred_triggers()
            ctx = runner_ctx("R", "runner-c13")
            rounds = rng.choice([1, 2])
            for rnd in range(rounds):
                for step in order + ["loop"] * rng.choice([0, 1]):
                    if step == "A":
                        make_occurrence(app, cfg, "event", 100 + rnd, ctx); hooks["occurrences"] += 1
                    elif step == "B":
                        make_occurrence(app, cfg, "status", 200 + rnd, ctx); hooks["occurrences"] += 1
                    else:
                        flush_history(app)
                        set_thread_ctx(app, ctx)
                        try:
                            app.trigger.trigger_loop_iteration()
                        finally:
                            clear_thread_ctx(app)
                        hooks["loop_iterations"] += 1
                n1 = len(list(app.orchestrator.get_task_invocation_ids(t1.task_id)))
                n2 = len(list(app.orchestrator.get_task_invocation_ids(t2.task_id)))
                hooks["launches_attributed"] += 2
                wit = {"backend": backend, "order": order, "round": rnd + 1, "launches_single": n1, "launches_and": n2}
                if n1 != rnd + 1:
                    V.append({"sig": f"shared-condition:single-trigger-launched-{'fewer' if n1 < rnd + 1 else 'more'}", "what": f"{backend}: trigger on the event alone launched {n1} times after {rnd + 1} event occurrence(s) (order {order})", "witness": wit})
                if n2 != rnd + 1:
                    V.append({"sig": f"shared-condition:and-trigger-launched-{'fewer' if n2 < rnd + 1 else 'more'}", "what": f"{backend}: AND trigger (event AND status) launched {n2} times after {rnd + 1} occurrence(s) of each (order {order})", "witness": wit})
                left = app.trigger.get_valid_conditions()
                if left:
                    V.append({"sig": "shared-condition:occurrence-left-pending", "what": f"{backend}: {len(left)} valid condition(s) still pending after both triggers ran (order {order})", "witness": wit})
                distinct.append(["shared", tuple(order), backend, rnd])


def run_case(case):
    hooks = Counter()
    V, distinct = [], []
    inconc = None
    if case["kind"] == "shared":
        run_shared(case, V, hooks, distinct)
    elif case["kind"] == "acct":
        run_acct(case, V, hooks, distinct)
    elif case["kind"] == "conc":
        inconc = run_conc(case, V, hooks, distinct)
    elif case["kind"] == "conccron":
        inconc = run_conc_cron(case, V, hooks, distinct)
    else:
        run_cron(case, V, hooks, distinct)
    seen, out = Counter(), []
    for v in V:
        seen[v["sig"]] += 1
        if seen[v["sig"]] <= 2:
            out.append(v)
    dset = {tuple(map(str, d)) for d in distinct}
    return {"violations": out, "distinct": [list(d) for d in dset], "hooks": dict(hooks), "events": sum(hooks.values()), "evaluations": hooks["loop_iterations"] + hooks["cron_polls"],
            "sample": case if case["id"] % 6 == 0 else None, "inconclusive": inconc}
