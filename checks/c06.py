"""C06 - running concurrency control: never two RUNNING invocations with the same concurrency key.

The key is computed from the *Python* argument values the harness submitted (TASK -> task; ARGUMENTS -> all bound
arguments; KEYS -> the key arguments), never from pynenc's serialized index.
Modes
  nested  : deterministic single-thread runs in which a running body re-enters the poll loop under another runner
            (so an invocation is RUNNING while further invocations are claimed and started) - decides
            "a submission path skips the index" and the blocked-invocation outcomes
  sched   : 2-3 pollers with their workers as actors under the controlled scheduler (mem/line, sqlite/statement),
            consistent RUNNING snapshot after every scheduler step
"""
from __future__ import annotations

import itertools
import random
from collections import Counter, defaultdict

from vlib.apps import TmpDir, make_app, runner_ctx, set_thread_ctx, clear_thread_ctx, queue_ids, flush_history
from vlib.models.lifecycle import AVAILABLE, FINALS

PID = "C06"
LEVEL = "exploration"
RULE = ("concurrency modes TASK / ARGUMENTS / KEYS x key-argument choices x reroute option x multisets of 2-6 submissions (equal and "
        "different keys) through every submission path (direct call, parallelize non-batch, parallelize batch, retry) x arrival orders; "
        "nested deterministic runs (a running body re-enters the poll loop as another runner) and controlled schedules with 2-3 pollers; "
        "distinct = (mode, key choice, option, path multiset, backend, nested/sched, schedule signature)")
ASSUMPTIONS = [
    "snapshot of RUNNING invocations: status_index[RUNNING] (mem) / SELECT ... WHERE status='running' on a separate connection (sqlite), taken at every body entry and after every scheduler step",
    "an invocation is 'blocked' when the harness model says another invocation with the same key was PENDING or RUNNING during the poll that handled it",
]
REQUIRED_HOOKS = ["running_snapshots", "polls", "bodies", "blocked_outcomes_checked", "schedules"]

PATHS = ["direct", "par_single", "par_batch", "retry"]
ALL_PATHS = PATHS + ["other_task"]   # the same arguments submitted to a different task (a different key in every mode)


def WORKERS(tier):
    return 14


def TIMEOUT(tier):
    return 900 if tier == "quick" else 5400


def gen_cases(tier, seed):
    thorough = tier == "thorough"
    rng = random.Random(seed)
    cases = []
    configs = [("TASK", ()), ("ARGUMENTS", ()), ("KEYS", ("k",)), ("KEYS", ("k", "v"))]
    for backend in ("mem", "sqlite"):
        for mode, keys in configs:
            for reroute in (False, True):
                # sequential/nested: every path alone and mixed multisets
                cases.append({"kind": "nested", "backend": backend, "mode": mode, "keys": list(keys), "reroute": reroute, "seed": rng.randrange(1 << 30),
                              "n": 60 if thorough else 8})
    sched_n = 10000 if thorough else 300
    chunks = 24 if thorough else 12
    for j in range(chunks):
        mode, keys = configs[j % len(configs)]
        cases.append({"kind": "sched", "backend": ("mem", "sqlite")[j % 2], "mode": mode, "keys": list(keys), "reroute": bool((j // 2) % 2), "pollers": 2 + (j % 3 == 2),
                      "strategy": "pct", "count": sched_n // chunks, "seed": seed * 1013 + j, "budget": 240 if thorough else 35})
    # recorded witness schedule of the known check-then-act finding (replayed so that every run shows it while it exists)
    import json as _json, os as _os
    wpath = _os.path.join(_os.path.dirname(__file__), "c06_race_choices_mem.json")
    if _os.path.exists(wpath):
        cases.append({"kind": "sched", "backend": "mem", "mode": "ARGUMENTS", "keys": [], "reroute": True, "pollers": 2, "strategy": "replay",
                      "choices": _json.load(open(wpath)), "fixed": "equal2", "seed": 5})
    for backend in ("mem", "sqlite"):
        cases.append({"kind": "sched", "backend": backend, "mode": "ARGUMENTS", "keys": [], "reroute": True, "pollers": 2, "strategy": "dfs",
                      "p": 2 if thorough else 1, "seed": seed, "budget": 400 if thorough else 35, "fixed": "equal2"})
    return cases


def key_of(mode, keys, args):
    if mode == "TASK":
        return ("task",)
    if mode == "ARGUMENTS":
        return ("args", args["k"], args["v"])
    return ("keys",) + tuple(args[k] for k in keys)


class World:
    """One app + the harness-side model of who holds what."""

    def __init__(self, backend, db, mode, keys, reroute, sc=None, tag="w"):
        from pynenc.conf.config_task import ConcurrencyControlType
        from vtasks import basic
        from vlib import probes
        self.backend, self.mode, self.keys, self.reroute, self.sc = backend, mode, tuple(keys), reroute, sc
        self.log = probes.Log(stamp=(self._stamp if sc else None))
        self.probes = probes.install(self.log)
        self.app = make_app(backend, db, app_id=f"c06{tag}", cached_status_time=0.0)
        opts = dict(running_concurrency=ConcurrencyControlType[mode], reroute_on_concurrency_control=reroute, max_retries=2)
        if self.keys:
            opts["key_arguments"] = self.keys
        self.task = self.app.task(basic.probed_keyed, **opts)
        self.task_single = self.task  # parallelize with one element never batches
        self.task2 = self.app.task(basic.probed_keyed2, **opts)
        basic.ATTEMPTS.clear()
        self.inv_args = {}
        self.inv_key = {}      # invocation id -> model key
        self.inv_path = {}
        self.V = []
        self.hooks = Counter()
        self.nest_depth = 0
        self.nest_runner = itertools.count(1)
        basic.BODY_HOOK[0] = self.body_hook
        self.retry_left = {}
        self._raw = None
        self.retrieved = []   # ids handed out by the broker (instance-level wrapper, harness bookkeeping only)
        real_retrieve = self.app.broker.retrieve_invocation

        def retrieve():
            i = real_retrieve()
            if i is not None:
                self.retrieved.append(i)
            return i
        self.app.broker.retrieve_invocation = retrieve

    def _stamp(self):
        self.sc.yield_point("probe:boundary")
        return self.sc.stamp()

    # ---- submissions
    def submit(self, path, args):
        t = self.task
        if path == "direct":
            invs = [t(args["k"], args["v"])]
        elif path == "par_single":
            invs = list(t.parallelize([(args["k"], args["v"])]))
        elif path == "retry":
            invs = [t(args["k"], args["v"])]
            self.retry_left[invs[0].invocation_id] = 1
        elif path == "other_task":
            invs = [self.task2(args["k"], args["v"])]
        else:
            raise ValueError(path)
        for inv in invs:
            self.inv_key[inv.invocation_id] = (("other-task",) if path == "other_task" else ()) + key_of(self.mode, self.keys, args)
            self.inv_path[inv.invocation_id] = path
            self.inv_args[inv.invocation_id] = args
        return [i.invocation_id for i in invs]

    def submit_batch(self, arglist):
        invs = list(self.task.parallelize([(a["k"], a["v"]) for a in arglist]))
        for inv, a in zip(invs, arglist):
            self.inv_key[inv.invocation_id] = key_of(self.mode, self.keys, a)
            self.inv_path[inv.invocation_id] = "par_batch"
        return [i.invocation_id for i in invs]

    # ---- observation
    def running_now(self):
        orch = self.app.orchestrator
        if hasattr(orch, "status_index"):
            from pynenc.invocation.status import InvocationStatus
            return list(orch.status_index.get(InvocationStatus.RUNNING, ()))
        import sqlite3
        if self._raw is None:
            self._raw = sqlite3.connect(orch.sqlite_db_path, timeout=30, check_same_thread=False)
        return [r[0] for r in self._raw.execute(f"SELECT invocation_id FROM {orch.tables.INVOCATIONS} WHERE status='running'")]

    def snapshot_check(self, where):
        self.hooks["running_snapshots"] += 1
        per = defaultdict(list)
        for i in self.running_now():
            if i in self.inv_key:
                per[self.inv_key[i]].append(i)
        for k, invs in per.items():
            if len(invs) > 1:
                paths = sorted(self.inv_path[i] for i in invs)
                mech = ""
                if self.sc is not None and len(invs) == 2:
                    mech = ":" + self.classify_overlap(invs[0], invs[1])
                self.V.append({"sig": f"two-running-same-key:{self.mode}:paths={'+'.join(paths)}{mech}",
                               "what": f"{len(invs)} invocations with key {k} are RUNNING at once ({where}); submitted through {paths}",
                               "witness": {"key": list(map(str, k)), "invocations": invs, "paths": paths, "where": where, "backend": self.backend, "reroute": self.reroute}})

    def classify_overlap(self, x, y):
        """check-then-act: neither invocation was already RUNNING while the other one's two checks (candidate before the PENDING
        request, authorisation before the RUNNING request) were made; holder-visible: one was RUNNING during both checks of the other."""
        ev = [e for e in self.log.events if e["kind"] == "set_status" and e["ok"] and e["inv"] in (x, y)]

        def last(inv, req, field):
            c = [e[field] for e in ev if e["inv"] == inv and e["req"] == req]
            return c[-1] if c else None
        for a, b in ((x, y), (y, x)):
            a_run_ret, b_pend_call, b_run_call = last(a, "RUNNING", "ret"), last(b, "PENDING", "call"), last(b, "RUNNING", "call")
            if a_run_ret is not None and b_pend_call is not None and b_run_call is not None and a_run_ret <= b_pend_call:
                return "holder-visible-to-checks"
        return "check-then-act"

    def body_hook(self, ev, inv, extra):
        from pynenc.exceptions import RetryError
        if ev == "enter":
            self.hooks["bodies"] += 1
            # the body only ever executes for an invocation that is RUNNING (a worker that failed the run-time check gave it back and must skip it)
            try:
                own = self.status(inv)
            except Exception:
                own = "?"
            if own != "RUNNING":
                self.V.append({"sig": f"body-executing-while-status:{own}", "what": f"the body of invocation {str(inv)[:8]} started while its status is {own} (path {self.inv_path.get(inv)})",
                               "witness": {"backend": self.backend, "mode": self.mode, "reroute": self.reroute}})
            self.snapshot_check("body-enter")
            if self.sc is not None:
                self.sc.yield_point("probe:body-enter")
        elif ev == "middle":
            if self.sc is None and self.nest_depth < 3:
                # deterministic concurrency: while this body is running another runner polls and runs what it gets
                self.nest_depth += 1
                n0 = len(self.retrieved)
                try:
                    self.poll_and_run(runner_ctx("R", f"nested-{next(self.nest_runner)}"), 3)
                finally:
                    self.nest_depth -= 1
                # every same-key invocation that this poll took from the queue while `inv` was RUNNING was blocked by it:
                # it must now be final (option off) or back in the queue in an available status (option on)
                if inv in self.inv_key:
                    q = set(queue_ids(self.app))
                    for x in dict.fromkeys(self.retrieved[n0:]):
                        if x == inv or self.inv_key.get(x) != self.inv_key[inv]:
                            continue
                        st = self.status(x)
                        self.hooks["blocked_outcomes_checked"] += 1
                        if st in ("PENDING", "RUNNING", "SUCCESS", "FAILED") and self.nest_depth == 0:
                            continue  # it was claimed: reported by the two-RUNNING monitor if that was wrong
                        if not self.reroute and st != "CONCURRENCY_CONTROLLED_FINAL" and st not in ("PENDING", "RUNNING", "SUCCESS", "FAILED"):
                            self.V.append({"sig": f"blocked-not-final:{st}:option-off", "what": f"reroute option off: invocation {x[:8]} blocked by a RUNNING invocation with the same key is {st} "
                                           f"({'queued' if x in q else 'not queued'}) instead of CONCURRENCY_CONTROLLED_FINAL",
                                           "witness": {"backend": self.backend, "mode": self.mode, "status": st, "queued": x in q, "path": self.inv_path.get(x)}})
                        if self.reroute and not (st in AVAILABLE and x in q) and st not in ("PENDING", "RUNNING", "SUCCESS", "FAILED"):
                            self.V.append({"sig": f"blocked-not-requeued:{st}:option-on", "what": f"reroute option on: blocked invocation {x[:8]} is {st}, {'queued' if x in q else 'not queued'}",
                                           "witness": {"backend": self.backend, "mode": self.mode, "status": st, "queued": x in q, "path": self.inv_path.get(x)}})
            elif self.sc is not None:
                self.sc.yield_point("probe:body-middle")
            if self.retry_left.get(inv, 0) > 0:
                self.retry_left[inv] -= 1
                if self.sc is None and inv in self.inv_args and len(self.inv_key) < 9:
                    # a same-key call arrives while this invocation is still RUNNING (queued ahead of the coming retry)
                    self.submit("direct", self.inv_args[inv])
                raise RetryError("once")

    def poll_and_run(self, ctx, k):
        app = self.app
        self.hooks["polls"] += 1
        self.log.add("poll_start", runner=ctx.runner_id, at=self.log.now())
        from pynenc import context
        prev_ctx = context.get_runner_context(app.app_id)
        prev_inv = context.get_dist_invocation_context(app.app_id)
        set_thread_ctx(app, ctx)
        context.swap_dist_invocation_context(app.app_id, None)
        holders_before = {}
        if self.sc is None:
            # sequential harness (nobody else polls meanwhile): who holds which key while this poll runs
            for i_, k_ in self.inv_key.items():
                if self.status(i_) in ("PENDING", "RUNNING"):
                    holders_before.setdefault(k_, set()).add(i_)
        try:
            try:
                invs = list(app.orchestrator.get_invocations_to_run(k, ctx))
            except Exception as e:
                self.log.add("poll_raised", runner=ctx.runner_id, error=f"{type(e).__name__}: {e}"[:300])
                statuses = sorted({self.status(i) for i in self.inv_key})
                self.V.append({"sig": f"poll-raised:{type(e).__name__}", "what": f"get_invocations_to_run raised {type(e).__name__}: {e}"[:300],
                               "witness": {"backend": self.backend, "mode": self.mode, "reroute": self.reroute, "statuses_present": statuses}})
                return
            self.log.add("poll_end", runner=ctx.runner_id, got=[i.invocation_id for i in invs])
            if self.sc is None:
                # a poll hands out at most one invocation per key, and none whose key is held (PENDING / RUNNING) by another invocation throughout the poll
                got_keys = {}
                for x in invs:
                    xid = x.invocation_id
                    kx = self.inv_key.get(xid)
                    if kx is None:
                        continue
                    self.hooks["handed_out_checked"] += 1
                    still = {h for h in holders_before.get(kx, ()) if h != xid and self.status(h) in ("PENDING", "RUNNING")}
                    if still or kx in got_keys:
                        self.V.append({"sig": f"blocked-invocation-handed-out:{self.status(xid) if False else self.inv_path.get(xid)}",
                                       "what": f"the poll handed out invocation {xid[:8]} (path {self.inv_path.get(xid)}) although key {kx} is held by "
                                               f"{sorted(h[:8] for h in still) or [got_keys[kx][:8] + ' (same poll)']}",
                                       "witness": {"backend": self.backend, "mode": self.mode, "reroute": self.reroute, "path": self.inv_path.get(xid)}})
                    got_keys.setdefault(kx, xid)
            for inv in invs:
                try:
                    inv.run(ctx)
                except Exception:
                    pass
        finally:
            context.swap_dist_invocation_context(app.app_id, prev_inv)
            if prev_ctx is not None:
                context.set_runner_context(app.app_id, prev_ctx)
            else:
                context.clear_runner_context(app.app_id)

    def status(self, inv):
        return self.app.orchestrator.get_invocation_status(inv).name

    def drain(self, ctx, rounds=12):
        for _ in range(rounds):
            if not queue_ids(self.app):
                break
            self.poll_and_run(ctx, 4)

    def final_checks(self):
        """blocked-invocation outcomes, unjustified blocking, nothing stranded"""
        ev = self.log.events
        # client-boundary intervals (call stamp .. return stamp of the public status calls): an invocation is "active"
        # from the call of its successful PENDING request to the return of the successful request that leaves PENDING/RUNNING
        cur = {}
        active_windows = defaultdict(list)  # inv -> [[start, end|None]]
        for e in ev:
            if e["kind"] == "set_status" and e["ok"]:
                i, new = e["inv"], e["req"]
                was = cur.get(i)
                if new in ("PENDING", "RUNNING") and was not in ("PENDING", "RUNNING"):
                    active_windows[i].append([e["call"], None])
                elif new not in ("PENDING", "RUNNING") and was in ("PENDING", "RUNNING") and active_windows[i]:
                    active_windows[i][-1][1] = e["ret"]
                cur[i] = new
        last_poll = {}
        for e in ev:
            if e["kind"] == "poll_start":
                last_poll[e["runner"]] = e["at"]
            elif e["kind"] == "set_status" and e["ok"] and e["req"] in ("CONCURRENCY_CONTROLLED", "CONCURRENCY_CONTROLLED_FINAL") and e["inv"] in self.inv_key:
                self.hooks["blocked_outcomes_checked"] += 1
                x, k = e["inv"], self.inv_key[e["inv"]]
                t0, t1 = last_poll.get(e["runner"], 0), e["ret"]
                justified = False
                for y, wins in active_windows.items():
                    if y == x or self.inv_key.get(y) != k:
                        continue
                    for a, b in wins:
                        if a <= t1 and (b is None or b >= t0):
                            justified = True
                if not justified:
                    self.V.append({"sig": f"blocked-without-same-key-holder:{self.mode}", "what": f"invocation {x[:8]} (key {k}) was marked {e['req']} although no other invocation with that key was PENDING or RUNNING during the poll",
                                   "witness": {"backend": self.backend, "key": list(map(str, k)), "poll_window": [t0, t1],
                                               "same_key_windows": {y[:8]: w_ for y, w_ in active_windows.items() if self.inv_key.get(y) == k}}})
                if e["req"] == "CONCURRENCY_CONTROLLED_FINAL" and self.reroute:
                    self.V.append({"sig": "blocked-final-although-reroute-on", "what": "reroute option on but the blocked invocation was made final", "witness": {"backend": self.backend}})
                if e["req"] == "CONCURRENCY_CONTROLLED" and not self.reroute:
                    self.V.append({"sig": "blocked-rerouted-although-reroute-off", "what": "reroute option off but the blocked invocation was re-queued", "witness": {"backend": self.backend}})
        # end state: every invocation final, or available and queued
        q = set(queue_ids(self.app))
        for i in self.inv_key:
            st = self.status(i)
            if st in FINALS:
                continue
            if st in AVAILABLE and i in q:
                continue
            self.V.append({"sig": f"blocked-or-left-stranded:{st}", "what": f"after the drain invocation {i[:8]} is {st}, {'queued' if i in q else 'not queued'} (path {self.inv_path[i]})",
                           "witness": {"backend": self.backend, "mode": self.mode, "reroute": self.reroute, "path": self.inv_path[i]}})

    def close(self):
        from vtasks import basic
        basic.BODY_HOOK[0] = None
        self.probes.uninstall()
        if self._raw is not None:
            self._raw.close()


def plan_submissions(rng, n=None):
    """a multiset of submissions with equal and different keys over every path"""
    n = n or rng.randint(2, 6)
    subs = []
    for _ in range(n):
        subs.append((rng.choice(ALL_PATHS), {"k": rng.choice(["a", "a", "b"]), "v": rng.choice([1, 1, 2])}))
    return subs


def apply_plan(w, subs):
    batch = [a for p, a in subs if p == "par_batch"]
    done_batch = False
    for p, a in subs:
        if p == "par_batch":
            if not done_batch and len(batch) >= 2:
                w.submit_batch(batch)
                done_batch = True
            elif len(batch) < 2:
                w.submit("par_single", a)
        else:
            w.submit(p, a)


def run_nested(case, V, hooks, distinct):
    rng = random.Random(case["seed"])
    with TmpDir() as td:
        for n in range(case["n"]):
            w = World(case["backend"], td.db(f"n{n}.sqlite"), case["mode"], case["keys"], case["reroute"], tag=f"n{case['seed']}_{n}")
            try:
                if n < len(PATHS):
                    # each path alone: two equal submissions through the same path (+ one different key)
                    p = PATHS[n]
                    subs = [(p, {"k": "a", "v": 1}), (p, {"k": "a", "v": 1}), (p, {"k": "b", "v": 2})]
                else:
                    subs = plan_submissions(rng)
                apply_plan(w, subs)
                ctx = runner_ctx("R", "main-runner")
                w.poll_and_run(ctx, 1)
                w.drain(ctx)
                flush_history(w.app)
                w.final_checks()
                hooks.update(w.hooks)
                hooks["schedules"] += 0
                distinct.append([case["mode"], case["keys"], case["reroute"], case["backend"], "nested", sorted(p for p, _ in subs), sorted(str(key_of(case["mode"], case["keys"], a)) for _, a in subs)])
                for v in w.V:
                    v["witness"]["submissions"] = [[p, a] for p, a in subs]
                    V.append(v)
            finally:
                w.close()


def run_sched(case, V, hooks, distinct):
    from vlib import sched as S, shims as SH
    from checks import c02
    backend = case["backend"]
    rng = random.Random(case["seed"])
    td = TmpDir()
    counter = {"n": 0}
    totals = Counter()

    def scenario(sc):
        import os
        counter["n"] += 1
        db = td.db(f"s{counter['n'] % 30}.sqlite")
        for ext in ("", "-wal", "-shm"):
            try:
                os.remove(db + ext)
            except FileNotFoundError:
                pass
        w = World(backend, db, case["mode"], case["keys"], case["reroute"], sc=sc, tag=f"s{backend}")
        if case.get("fixed") == "equal2":
            subs = [("direct", {"k": "a", "v": 1}), ("direct", {"k": "a", "v": 1})]
        else:
            r2 = random.Random(case["seed"] * 7 + counter["n"] // 8)
            subs = plan_submissions(r2, n=r2.randint(2, 4))
        apply_plan(w, subs)
        flush_history(w.app)
        sc.on_step = lambda s: w.snapshot_check("scheduler-step")
        for i in range(case["pollers"]):
            ctx = runner_ctx("R", f"runner-{i}")

            def body(ctx=ctx):
                for _ in range(2):
                    w.poll_and_run(ctx, 2)
            sc.spawn(f"poller{i}", body)

        def fin():
            sc.on_step = None
            w.drain(runner_ctx("R", "drain-runner"))
            flush_history(w.app)
            w.final_checks()
            totals.update(w.hooks)
            w.close()
            if not w.V:
                return None
            for v in w.V:
                v["witness"]["submissions"] = [[p, a] for p, a in subs]
            return w.V[:6]
        return fin

    shims = SH.Shims() if backend == "mem" else SH.Shims(threading_modules=["pynenc.state_backend.base_state_backend"], time_modules=["pynenc.util.sqlite_utils"])
    try:
        res = S.explore(scenario, strategy=case["strategy"], max_preemptions=case.get("p", 1), n=case.get("count", 30), seed=case["seed"],
                        sql=(backend == "sqlite"), lines=c02.line_specs() if backend == "mem" else None, shims=shims, max_steps=12000,
                        time_budget=case.get("budget"), replay_choices=case.get("choices"))
    finally:
        td.close()
    hooks.update(totals)
    hooks["schedules"] += res["schedules"]
    for s_ in res["signatures_nontrivial"]:
        distinct.append([case["mode"], case["keys"], case["reroute"], backend, "sched", case["pollers"], s_])
    for r in res["results"]:
        base = {"backend": backend, "choices": r["choices"], "trace_tail": r["trace"][-30:]}
        if r.get("deadlock"):
            V.append({"sig": f"deadlock:{backend}", "what": "every live actor is blocked", "witness": base})
        if r.get("error"):
            V.append({"sig": f"harness-error:{backend}", "what": r["error"][:400], "witness": base})
        for v in (r.get("out") or []):
            v = dict(v)
            v["sig"] = v["sig"] + ":concurrent-pollers"
            v["witness"] = {**v["witness"], **base}
            V.append(v)
    return res.get("inconclusive")


def run_case(case):
    hooks = Counter()
    V, distinct = [], []
    inconc = None
    if case["kind"] == "nested":
        run_nested(case, V, hooks, distinct)
    else:
        inconc = run_sched(case, V, hooks, distinct)
    seen, out = Counter(), []
    for v in V:
        seen[v["sig"]] += 1
        if seen[v["sig"]] <= 2:
            out.append(v)
    return {"violations": out, "distinct": distinct, "hooks": dict(hooks), "events": sum(hooks.values()), "evaluations": hooks["polls"],
            "sample": case if case["id"] % 6 == 0 else None, "inconclusive": inconc}
