"""C01 - lifecycle graph, absorbing finals, ownership, backend agreement.

Oracle: vlib.models.lifecycle (documented graph + ownership sentences), evaluated after every
request made through orchestrator.set_invocation_status on both backends, with the status record
read back through get_invocation_status_record before and after.
"""
from __future__ import annotations

import hashlib
import itertools
import random

from vlib.apps import TmpDir, make_app, runner_ctx, flush_history
from vlib.models.lifecycle import Lifecycle, load_doc_edges, STATUSES, FINALS, OWNED
from vlib.poke import force_status, HarnessError

PID = "C01"
LEVEL = "exploration"
RULE = ("(i) every cell (current status or none, owner none/A/B) x (requested status, requester none/A/B) on both "
        "backends, distinct = cell; (ii) every request sequence up to length L over a reduced alphabet "
        "(7 statuses x 2 requesters), distinct = sequence; (iii) seeded random sequences over the full alphabet with "
        "3 invocations and 4 requesters (incl. none), distinct = sequence hash. Non-trivial: at least one request "
        "was judged against the model (all are).")
ASSUMPTIONS = [
    "the documented graph is docs/_static/invocation_state_machine.svg (data-edge attributes); finals absorbing regardless",
    "unknown invocation ids: the documented contract of _atomic_status_transition (KeyError, nothing created) is the expected behaviour on both backends",
    "requester none asking for PENDING is left open by the statement: either outcome accepted, unchanged-on-error and backend agreement still required",
    "unreachable (status, owner) pairs are produced by writing the record into the backend and are verified through the public getter first",
]
REQUIRED_HOOKS = ["requests_judged", "cells_both_backends", "error_unchanged_checked"]
REDUCED = ["PENDING", "RUNNING", "SUCCESS", "RETRY", "KILLED", "REROUTED", "PENDING_RECOVERY"]
REQS = ["A", "B"]


def EXHAUSTIVE(tier):
    return True  # part (i) and part (ii) are complete enumerations of their stated spaces


def WORKERS(tier):
    return 14


def gen_cases(tier, seed):
    cases = []
    for cur in [None] + STATUSES:
        for owner in [None, "A", "B"]:
            cases.append({"kind": "row", "cur": cur, "owner": owner})
    thorough = tier == "thorough"
    Lmem, Lsql = (5, 4) if thorough else (4, 3)
    nsym = len(REDUCED) * len(REQS)
    # exhaustive sequences, sharded by a prefix of symbols
    for p in itertools.product(range(nsym), repeat=2):
        cases.append({"kind": "exh", "backends": ["mem"], "L": Lmem, "prefix": list(p)})
    for p in itertools.product(range(nsym), repeat=1 if not thorough else 2):
        cases.append({"kind": "exh", "backends": ["mem", "sqlite"], "L": Lsql, "prefix": list(p)})
    nrand = 10000 if thorough else 300
    per = 50 if thorough else 10
    for i in range(nrand // per):
        cases.append({"kind": "rand", "seed": seed * 1000003 + i, "n": per})
    return cases


# ----------------------------------------------------------------------------------------------


class Env:
    def __init__(self, kinds):
        self.td = TmpDir()
        self.apps = {}
        from vtasks import basic
        for k in kinds:
            app = make_app(k, self.td.db())
            self.apps[k] = (app, app.task(basic.echo))
        self.ctx = {"A": runner_ctx("RA", "A"), "B": runner_ctx("RB", "B"), "C": runner_ctx("RC", "C")}
        none = runner_ctx("RN", "none")
        none.runner_id = None
        self.ctx[None] = none
        edges, self.edge_src, self.drift = load_doc_edges()
        self.model = Lifecycle(edges)
        self.n = 0

    def new_inv(self, kind):
        app, task = self.apps[kind]
        self.n += 1
        return task(self.n).invocation_id

    def housekeeping(self):
        for app, _ in self.apps.values():
            flush_history(app)
            try:
                app.state_backend.invocation_threads.clear()
                app.broker.purge()
            except Exception:
                pass

    def close(self):
        self.housekeeping()
        self.td.close()


def observe(app, inv):
    try:
        rec = app.orchestrator.get_invocation_status_record(inv)
    except KeyError:
        return None
    return (rec.status.name, rec.runner_id, rec.timestamp.timestamp())


def request(app, inv, req, ctx):
    from pynenc.exceptions import InvocationStatusError
    from pynenc.invocation.status import InvocationStatus
    try:
        app.orchestrator.set_invocation_status(inv, InvocationStatus[req], ctx)
        return ("ok",)
    except InvocationStatusError as e:
        return ("status_error", type(e).__name__)
    except KeyError:
        return ("keyerror",)
    except Exception as e:  # anything else is reported as its own signature
        return ("other", f"{type(e).__name__}: {e}"[:200])


def judge(model, backend, before, req, requester, outcome, after, V, hooks):
    """Compare one observed step with the model; append violations to V."""
    hooks["requests_judged"] += 1
    cell = {"backend": backend, "before": before, "req": req, "requester": requester, "outcome": outcome, "after": after}
    if outcome[0] == "other":
        V.append({"sig": f"non-status-error:{backend}", "what": f"request raised {outcome[1]}", "witness": cell})
        return
    if before is None:
        # unknown invocation: documented contract is KeyError and nothing created
        if outcome[0] != "keyerror":
            kind = "created-record" if after is not None else "status-error-instead-of-keyerror"
            V.append({"sig": f"unknown-id:{backend}:{kind}",
                      "what": f"{backend}: set_invocation_status on an unknown id -> {outcome}, record afterwards {after}",
                      "witness": cell})
        elif after is not None:
            V.append({"sig": f"unknown-id:{backend}:created-record", "what": "KeyError but a record exists afterwards", "witness": cell})
        return
    cur, owner, ts = before
    exp = model.step(cur, owner, req, requester)
    if outcome[0] == "keyerror":
        V.append({"sig": f"keyerror-on-existing:{backend}", "what": "KeyError for an existing invocation", "witness": cell})
        return
    ok = outcome[0] == "ok"
    if exp[0] == "error" and ok:
        V.append({"sig": f"wrongly-accepted:{exp[1]}", "what": f"{backend}: {cur}(owner {owner}) -> {req} by {requester} accepted, model says {exp[1]}", "witness": cell})
        return
    if exp[0] == "ok" and not ok:
        V.append({"sig": "wrongly-rejected", "what": f"{backend}: {cur}(owner {owner}) -> {req} by {requester} rejected with {outcome[1]}", "witness": cell})
        return
    if not ok:
        hooks["error_unchanged_checked"] += 1
        if after != before:
            V.append({"sig": "changed-on-error", "what": f"{backend}: rejected request changed the record {before} -> {after}", "witness": cell})
        return
    # accepted
    if after is None:
        V.append({"sig": "record-vanished", "what": "accepted request but no record afterwards", "witness": cell})
        return
    if exp[0] == "open":
        new_status, new_owner = req, requester
    else:
        _, new_status, new_owner = exp
    if after[0] != new_status:
        V.append({"sig": "wrong-new-status", "what": f"{backend}: accepted {cur}->{req} but status is {after[0]}", "witness": cell})
    if after[1] != new_owner:
        V.append({"sig": f"wrong-new-owner:{req}", "what": f"{backend}: {cur}(owner {owner}) -> {req} by {requester}: owner is {after[1]}, expected {new_owner}", "witness": cell})
    if after[2] < ts:
        V.append({"sig": "timestamp-decreased", "what": f"{backend}: timestamp went back {ts} -> {after[2]}", "witness": cell})


def reach(env, kind, cur, owner):
    """Produce an invocation in (cur, owner) on backend `kind`; returns (inv_id, how)."""
    app, _ = env.apps[kind]
    if cur is None:
        from pynenc.identifiers.invocation_id import InvocationId
        env.n += 1
        return InvocationId(f"unknown-{kind}-{env.n}"), "none"
    inv = env.new_inv(kind)
    model = env.model
    natural_owner = owner if cur in OWNED else None
    path = model.shortest_path(cur)
    if path is not None and owner == natural_owner and (cur not in OWNED or owner is not None) and cur != "REGISTERED":
        # public route: the owner (or A) walks the shortest documented path
        actor = owner or "A"
        for st in path[1:]:
            out = request(app, inv, st, env.ctx[actor])
            if out[0] != "ok":
                break
        got = observe(app, inv)
        if got and got[0] == cur and got[1] == owner:
            return inv, "public"
    force_status(app, inv, cur, owner)
    return inv, "poked"


def run_row(env, case, V, hooks, distinct):
    cur, owner = case["cur"], case["owner"]
    how_used = set()
    for req in STATUSES:
        for requester in [None, "A", "B"]:
            outs = {}
            for kind in ("mem", "sqlite"):
                app, _ = env.apps[kind]
                inv, how = reach(env, kind, cur, owner)
                how_used.add(how)
                before = observe(app, inv)
                if cur is not None and (before is None or before[0] != cur or before[1] != owner):
                    raise HarnessError(f"could not reach {cur}/{owner} on {kind}: {before}")
                outcome = request(app, inv, req, env.ctx[requester])
                after = observe(app, inv)
                judge(env.model, kind, before, req, requester, outcome, after, V, hooks)
                outs[kind] = (outcome, None if after is None else after[:2])
            hooks["cells_both_backends"] += 1
            if outs["mem"] != outs["sqlite"]:
                V.append({"sig": "backends-disagree" + (":unknown-id" if cur is None else ""),
                          "what": f"{cur}(owner {owner}) -> {req} by {requester}: mem {outs['mem']} vs sqlite {outs['sqlite']}",
                          "witness": {"cur": cur, "owner": owner, "req": req, "requester": requester, "outs": outs}})
            distinct.append(["cell", cur, owner, req, requester])
        env.housekeeping()
    return sorted(how_used)


SYMS = [(s, r) for s in REDUCED for r in REQS]


def run_seq(env, kinds, seq, V, hooks):
    """seq: list of (status, requester). Lockstep over backends + model."""
    invs = {k: env.new_inv(k) for k in kinds}
    trail = []
    for req, requester in seq:
        outs = {}
        for k in kinds:
            app, _ = env.apps[k]
            before = observe(app, invs[k])
            outcome = request(app, invs[k], req, env.ctx[requester])
            after = observe(app, invs[k])
            n0 = len(V)
            judge(env.model, k, before, req, requester, outcome, after, V, hooks)
            for v in V[n0:]:
                v["witness"]["sequence_so_far"] = trail + [[req, requester]]
            outs[k] = (outcome, None if after is None else after[:2])
        trail.append([req, requester])
        if len(kinds) == 2:
            hooks["cells_both_backends"] += 1
            if outs["mem"] != outs["sqlite"]:
                V.append({"sig": "backends-disagree", "what": f"after {trail}: mem {outs['mem']} vs sqlite {outs['sqlite']}",
                          "witness": {"sequence": trail, "outs": outs}})


def run_exh(env, case, V, hooks, distinct):
    kinds, L, prefix = case["backends"], case["L"], case["prefix"]
    n = 0
    # every full-length sequence with this prefix; shorter ones are their prefixes and are judged step by step
    for rest in itertools.product(range(len(SYMS)), repeat=L - len(prefix)):
        idx = list(prefix) + list(rest)
        seq = [SYMS[i] for i in idx]
        run_seq(env, kinds, seq, V, hooks)
        distinct.append(["seq", "+".join(kinds), "".join(f"{i:x}" for i in idx)])
        n += 1
        if n % 150 == 0:
            env.housekeeping()
    return n


def run_rand(env, case, V, hooks, distinct):
    rng = random.Random(case["seed"])
    kinds = ["mem", "sqlite"]
    for _ in range(case["n"]):
        ninv = 3
        invs = [{k: env.new_inv(k) for k in kinds} for _ in range(ninv)]
        length = rng.randint(30, 80)
        trail = []
        for _step in range(length):
            i = rng.randrange(ninv)
            app_m, _t = env.apps["mem"]
            st = observe(app_m, invs[i]["mem"])
            if st and st[0] in FINALS and rng.random() < 0.5:
                invs[i] = {k: env.new_inv(k) for k in kinds}
                st = observe(app_m, invs[i]["mem"])
            requester = rng.choice([None, "A", "B", "C"])
            if rng.random() < 0.6 and st:
                legal = [s for s in STATUSES if env.model.has_edge(st[0], s)]
                req = rng.choice(legal) if legal else rng.choice(STATUSES)
                if rng.random() < 0.7 and st[0] in OWNED:
                    requester = st[1]
            else:
                req = rng.choice(STATUSES)
            outs = {}
            for k in kinds:
                app, _t = env.apps[k]
                before = observe(app, invs[i][k])
                outcome = request(app, invs[i][k], req, env.ctx[requester])
                after = observe(app, invs[i][k])
                n0 = len(V)
                judge(env.model, k, before, req, requester, outcome, after, V, hooks)
                for v in V[n0:]:
                    v["witness"]["trail"] = trail[-12:] + [[i, req, requester]]
                outs[k] = (outcome, None if after is None else after[:2])
            trail.append([i, req, requester])
            hooks["cells_both_backends"] += 1
            if outs["mem"] != outs["sqlite"]:
                V.append({"sig": "backends-disagree", "what": f"random sequence: mem {outs['mem']} vs sqlite {outs['sqlite']}",
                          "witness": {"trail": trail[-12:], "outs": outs}})
        h = hashlib.sha1(repr(trail).encode()).hexdigest()[:12]
        distinct.append(["rand", h])
        env.housekeeping()


def run_case(case):
    from collections import Counter
    hooks = Counter()
    V, distinct = [], []
    kinds = ["mem", "sqlite"] if case["kind"] != "exh" else case["backends"]
    env = Env(kinds)
    extra = {}
    try:
        if case["kind"] == "row":
            extra["reach_modes"] = run_row(env, case, V, hooks, distinct)
            evaluations = 14 * 3 * 2
        elif case["kind"] == "exh":
            evaluations = run_exh(env, case, V, hooks, distinct)
        else:
            run_rand(env, case, V, hooks, distinct)
            evaluations = case["n"]
        inconc = None
    except HarnessError as e:
        inconc, evaluations = f"harness: {e}", 0
    finally:
        env.close()
    # dedupe violations by (sig, what) to keep messages small
    seen, out = set(), []
    for v in V:
        key = (v["sig"], v["what"])
        if key not in seen and len(out) < 40:
            seen.add(key)
            out.append(v)
    sample = None
    if case["kind"] == "row" and case["cur"] == "PENDING" and case["owner"] == "A":
        sample = {"row": case, "cells": 42, "doc_graph_source": env.edge_src, "doc_graph_drift_vs_frozen": env.drift}
    elif case["kind"] == "rand" and case["id"] % 17 == 0:
        sample = {"random_case": case}
    elif case["kind"] == "exh" and case["prefix"] == [0] * len(case["prefix"]):
        sample = {"exhaustive_shard": case, "alphabet": SYMS}
    return {"violations": out, "distinct": distinct, "hooks": dict(hooks), "events": hooks["requests_judged"],
            "evaluations": evaluations, "sample": sample, "inconclusive": inconc,
            "extra": {"doc_graph_drift": len(env.drift)}}
