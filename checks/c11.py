"""C11 - stopping a runner leaves none of its invocations owned or unqueued.

The real ThreadRunner executes generated workloads (independent tasks, parents waiting on children, retrying tasks) under
the controlled scheduler in virtual time.  A baseline schedule is recorded; then for every step index i of it the same
seeded schedule is run again and stop_runner_loop() is injected at step i (fault = the stop request).  After run()
returned, every invocation the runner ever claimed must be final, or available + unowned + queued; nothing may be
PENDING / RUNNING / KILLED under the stopped runner; and run() must return (step bound + lasso detection).
"""
from __future__ import annotations

import random
from collections import Counter

from vlib.apps import queue_ids, flush_history
from vlib.models.lifecycle import AVAILABLE, FINALS

PID = "C11"
LEVEL = "fault_enumeration"
RULE = ("workloads (independent tasks / parent waiting on children / retrying tasks; 1-3 slots) x seeds; a baseline schedule is recorded and the "
        "stop request is injected at every scheduling step of it (quick: every k-th step so that the run fits the budget; thorough: every step); "
        "distinct = (workload, injection step's phase vector = status of every tracked invocation at the injection step)")
ASSUMPTIONS = [
    "no other runner exists (the property must not depend on recovery); a variant with a second live runner separates 'stop hangs' from 'stop hangs only when alone'",
    "termination is decided in scheduler steps: a repeated global state while every live actor keeps running is non-termination",
]
REQUIRED_HOOKS = ["stop_injections", "post_stop_readouts", "claimed_invocations_checked"]


def WORKERS(tier):
    return 14


def TIMEOUT(tier):
    return 900 if tier == "quick" else 5400


WORKLOADS = ["independent", "parent_single", "parent_group", "retry", "mixed", "abnormal_exit"]


def gen_cases(tier, seed):
    thorough = tier == "thorough"
    cases = []
    reps = 5 if thorough else 1
    wl = WORKLOADS + (["independent3", "parent_deep", "retry2"] if thorough else [])
    for backend in ("mem", "sqlite"):
        for w in wl:
            for r in range(reps):
                if backend == "sqlite" and not thorough and w not in ("parent_single", "parent_group"):
                    continue
                cases.append({"backend": backend, "workload": w, "slots": 1 + (len(w) + r) % 3, "seed": seed * 911 + r, "stride": 1 if thorough else (3 if backend == "mem" else 9),
                              "second_runner": False})
    cases.append({"backend": "mem", "workload": "parent_single", "slots": 1, "seed": seed * 911 + 77, "stride": 6 if not thorough else 2, "second_runner": True})
    return cases


def build_workload(sim, name):
    from vtasks import tree as T, basic
    app = sim.make_app()
    node = app.task(T.node)
    flaky = app.task(T.flaky_leaf, max_retries=3)
    roots = []
    if name.startswith("independent"):
        n = 3 if name == "independent" else 5
        for i in range(n):
            roots.append(node({"id": 100 + i, "v": i, "mode": "leaf", "children": []}))
    elif name == "parent_single":
        roots.append(node({"id": 1, "v": 1, "mode": "single", "children": [{"id": 2, "v": 2, "mode": "leaf", "children": [], "work": 40}, {"id": 3, "v": 3, "mode": "leaf", "children": [], "work": 10}]}))
    elif name == "parent_group":
        roots.append(node({"id": 1, "v": 1, "mode": "group", "children": [{"id": 2, "v": 2, "mode": "leaf", "children": [], "work": 40}, {"id": 3, "v": 3, "mode": "leaf", "children": [], "work": 25}]}))
    elif name == "parent_deep":
        roots.append(node({"id": 1, "v": 1, "mode": "single", "children": [{"id": 2, "v": 2, "mode": "group", "children": [{"id": 4, "v": 1, "mode": "leaf", "children": []}, {"id": 5, "v": 1, "mode": "leaf", "children": []}]}]}))
    elif name == "abnormal_exit":
        ab = app.task(T.abnormal)
        roots.append(ab({"id": 70, "v": 0}))
        roots.append(node({"id": 71, "v": 1, "mode": "leaf", "children": [], "work": 60}))
        sim.abnormal_ids = {roots[0].invocation_id}
    elif name.startswith("retry"):
        roots.append(flaky({"id": 50, "v": 7, "fails": 1 if name == "retry" else 2}))
        roots.append(node({"id": 51, "v": 1, "mode": "leaf", "children": []}))
    else:
        roots.append(node({"id": 1, "v": 1, "mode": "mixed", "children": [{"id": 2, "v": 2, "mode": "leaf", "children": []}, {"id": 3, "v": 3, "mode": "leaf", "children": []}]}))
        roots.append(flaky({"id": 60, "v": 7, "fails": 1}))
    sim.roots = roots
    return None


def one_run(case, stop_at):
    from vlib import runner_sim
    from vtasks import tree as T
    T.EXEC_COUNT.clear()
    sim = runner_sim.Sim(case["backend"], slots=case["slots"], strategy="random", seed=case["seed"], max_steps=25000)
    sim.stop_at_step = stop_at
    phase = {}

    def client(s, sc, result):
        # external client: waits until every root is final, then (baseline only) stops the runner
        orch = s.app.orchestrator
        while True:
            if s.stop_done_at is not None:
                return
            ab = getattr(s, "abnormal_ids", set())
            if all(orch.get_invocation_status(r.invocation_id).is_final() for r in s.roots if r.invocation_id not in ab) and (not ab or sc.step > 400):
                break
            sc.yield_point("sleep")
        result["roots_final_at"] = sc.step
        if s.stop_at_step is None or s.stop_done_at is None:
            s.runner.stop_runner_loop()
            s.stop_done_at = sc.step

    second = {}

    def build(s):
        build_workload(s, case["workload"])
        if case.get("second_runner"):
            # a second live runner on the same in-memory app (shares the backends), polling by hand
            from vlib.apps import runner_ctx, set_thread_ctx, clear_thread_ctx
            ctx2 = runner_ctx("ThreadRunner", "second-runner")
            second["ctx"] = ctx2
        return None

    def on_step_extra(sc):
        if sim.stop_done_at is not None and "tracked" not in phase and sim.runner is not None:
            phase["tracked"] = {k: v.thread.is_alive() for k, v in sim.runner.threads.items()}
        if stop_at is not None and sim.stop_done_at is not None and "vec" not in phase:
            try:
                orch = sim.app.orchestrator
                phase["vec"] = sorted(orch.get_invocation_status(i).name for i in sim.known_ids())
            except Exception:
                phase["vec"] = ["?"]
    sim.on_step_extra = on_step_extra

    def client_with_second(s, sc, result):
        from vlib.apps import set_thread_ctx, clear_thread_ctx
        app = s.app
        ctx2 = second["ctx"]
        set_thread_ctx(app, ctx2)
        try:
            for _ in range(4000):
                if "loop_returned_at" in result and all(app.orchestrator.get_invocation_status(i).is_final() for i in s.known_ids()):
                    break
                if s.stop_done_at is None and all(app.orchestrator.get_invocation_status(r.invocation_id).is_final() for r in s.roots):
                    s.runner.stop_runner_loop()
                    s.stop_done_at = sc.step
                for inv in list(app.orchestrator.get_invocations_to_run(1, ctx2)):
                    try:
                        inv.run(ctx2)
                    except Exception:
                        pass
                sc.yield_point("sleep")
        finally:
            clear_thread_ctx(app)

    try:
        out = sim.run(build, client=client_with_second if case.get("second_runner") else client)
        res = out["result"]
        verdict = {"steps": out["steps"], "returned": "loop_returned_at" in res, "lasso": out["lasso"], "stuck": out["stuck"], "error": out["error"], "deadlock": out["deadlock"],
                   "phase": phase.get("vec"), "trace_tail": out["trace_tail"], "sig": out["sig"]}
        # read-out after run() returned (or at the end of the run)
        app = sim.app
        flush_history(app)
        orch = app.orchestrator
        q = queue_ids(app)
        rid = sim.runner.runner_id
        rows = []
        for i in sim.known_ids():
            rec = orch.get_invocation_status_record(i)
            try:
                is_child = app.state_backend.get_invocation(i).parent_invocation_id is not None
            except Exception:
                is_child = False
            rows.append({"inv": i[:8], "status": rec.status.name, "owner": rec.runner_id, "queued": q.count(i), "claimed_by_runner": i in sim.claimed, "owned_by_runner": rec.runner_id == rid,
                         "is_child": is_child})
        verdict["rows"] = rows
        verdict["runner_id"] = rid
        verdict["tracked_at_stop"] = {k[:8]: v for k, v in getattr(sim, "tracked_at_on_stop", {}).items()}
        verdict["abnormal"] = [i[:8] for i in getattr(sim, "abnormal_ids", set())]
    finally:
        sim.close()
    return verdict


def judge(case, stop_at, v, V, hooks):
    wit = {"workload": case["workload"], "backend": case["backend"], "slots": case["slots"], "stop_injected_at_step": stop_at, "phase_at_injection": v.get("phase"),
           "rows": v.get("rows"), "steps": v["steps"], "trace_tail": v["trace_tail"][-12:], "second_runner": case.get("second_runner", False)}
    alone = "" if not case.get("second_runner") else ":with-second-runner"
    if v["error"] and not any(x in v["error"] for x in ("InvocationStatusTransitionError", "InvocationStatusOwnershipError")):
        V.append({"sig": "harness-error", "what": v["error"][:400], "witness": wit})
        return "error"
    if v["error"]:
        # the old thread of an invocation that the stop already killed and re-routed tried to write its outcome (e.g. KILLED -> RETRY from inside
        # run()'s retry branch) and was refused: that refusal is the lifecycle doing its job, the rows below are judged as usual
        hooks["refused_writes_of_superseded_threads"] += 1
    if not v["returned"]:
        if v["lasso"]:
            waiting_parent = any(r["status"] in ("KILLED", "REROUTED", "RUNNING") and r["claimed_by_runner"] for r in v["rows"])
            # mechanism: is the awaited sub-invocation one that nobody ever claimed (it sits in the queue and no runner is left),
            # or one that was running in this very runner and was taken away before its parent was joined?
            child_claimed = any(r["claimed_by_runner"] and r["is_child"] and r["status"] not in FINALS for r in v["rows"])
            # in a deeper tree the claimed child may itself be waiting for a grandchild nobody ever claimed: then the listed mechanism applies transitively
            unclaimed_child = any(r["is_child"] and not r["claimed_by_runner"] and r["status"] not in FINALS for r in v["rows"])
            mech = "join-on-waiting-thread" + (":awaited-child-was-claimed-by-this-runner" if child_claimed and not unclaimed_child else "")
            V.append({"sig": f"stop-never-completes:{mech}{alone}" if waiting_parent else f"stop-never-completes{alone}",
                      "what": f"stop requested at step {stop_at}: run() never returns (global state repeats over steps {v['lasso']['from_step']}..{v['lasso']['to_step']} while "
                              f"{v['lasso']['live_actors']} keep running)", "witness": {**wit, "lasso": v["lasso"]}})
            return "hang"
        if v["deadlock"]:
            V.append({"sig": f"stop-deadlock{alone}", "what": "every live actor is blocked after the stop request", "witness": wit})
            return "hang"
        return "inconclusive"
    hooks["post_stop_readouts"] += 1
    for r in v["rows"]:
        if not r["claimed_by_runner"]:
            continue
        hooks["claimed_invocations_checked"] += 1
        ok = r["status"] in FINALS or (r["status"] in AVAILABLE and r["owner"] is None and r["queued"] >= 1)
        if case.get("second_runner") and r["owner"] == "second-runner":
            ok = True
        if r["inv"] in v.get("abnormal", []) and r["inv"] not in v.get("tracked_at_stop", {}):
            # its thread died abnormally and had already been reclaimed by the loop before _on_stop began: outside the
            # workloads of the property (counted, not judged)
            hooks["abnormal_already_reclaimed_not_judged"] += 1
            continue
        if not ok:
            kind = "owned" if r["owned_by_runner"] else ("unqueued" if r["queued"] == 0 else "other")
            V.append({"sig": f"after-stop:{r['status']}:{kind}{alone}", "what": f"after run() returned, invocation {r['inv']} claimed by the runner is {r['status']} (owner {r['owner']}, queued {r['queued']}x)",
                      "witness": wit})
    return "ok"


def run_case(case):
    hooks = Counter()
    V, distinct = [], []
    base = one_run(case, None)
    inconc = None
    if not base["returned"]:
        st = judge(case, None, base, V, hooks)
        if st == "inconclusive":
            inconc = f"baseline run did not finish within the step bound ({base['steps']} steps, {base['stuck']})"
    else:
        judge(case, None, base, V, hooks)
        nsteps = base["steps"]
        stride = case["stride"]
        n_inc = 0
        for i in range(1, nsteps, stride):
            v = one_run(case, i)
            hooks["stop_injections"] += 1
            st = judge(case, i, v, V, hooks)
            if st == "inconclusive":
                n_inc += 1
            distinct.append([case["workload"], case["backend"], case["slots"], tuple(v.get("phase") or [])])
        if n_inc > max(3, nsteps // stride // 4):
            inconc = f"{n_inc} injected runs hit the step bound while still changing state"
    seen, out = Counter(), []
    for v in V:
        seen[v["sig"]] += 1
        if seen[v["sig"]] <= 2:
            out.append(v)
    dset = {tuple(map(str, d)) for d in distinct}
    return {"violations": out, "distinct": [list(d) for d in dset], "hooks": dict(hooks), "events": hooks["claimed_invocations_checked"], "evaluations": hooks["stop_injections"] + 1,
            "sample": {"case": case, "baseline_steps": base["steps"]} if case["id"] % 3 == 0 else None, "inconclusive": inconc,
            "extra": {"hang_signatures": sum(1 for s in seen if s.startswith("stop-never"))}}
