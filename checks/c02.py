"""C02 - an invocation is held by at most one runner at a time under any interleaving.

Execution modes
  mem/line         : controlled scheduler, sys.monitoring LINE yield points on the in-memory orchestrator / broker /
                     poll / run code, cooperative lock shims
  sqlite/statement : controlled scheduler, every SQL statement and commit a yield point
  sqlite/processes : N forked processes free-running on one file with delay injection between statements
Oracles (vlib.oracles): in-lock chain check on the transition hook log; per-invocation linearizability of the
client-boundary set_invocation_status history against the lifecycle model; yielded <=> own successful claim;
body-interval overlap.
"""
from __future__ import annotations

import json
import os
import random
import time
from collections import Counter

from vlib.apps import TmpDir, make_app, runner_ctx, set_thread_ctx, clear_thread_ctx
from vlib.models.lifecycle import Lifecycle, load_doc_edges
from vlib import oracles

PID = "C02"
LEVEL = "exploration"
RULE = ("scenarios S1 queue [a], S2 queue [a,a,b] (duplicate ids), S3 a queued and reported blocking, S4 poller vs worker run() vs "
        "kill-and-reroute, S5 poller vs pending recovery; N pollers each list(get_invocations_to_run(k)) then run(); schedules: every "
        "schedule with <= p preemptions for N=2 (dfs), priority-randomised (pct) for N=3,4; process stress with N real processes; "
        "distinct = schedule signature with a context switch inside an operation (controlled) / history with overlapping claims (processes)")
ASSUMPTIONS = [
    "yield points exist at SQL statements and commits (sqlite) and at source lines of the listed functions plus lock acquisitions (mem); code between two yield points runs atomically",
    "the in-lock hook log order is the order of the critical sections (hook runs under the per-invocation lock / inside BEGIN IMMEDIATE)",
]
REQUIRED_HOOKS = ["schedules", "transitions_in_lock", "set_status_ops", "linearizability_checks", "proc_histories"]


def WORKERS(tier):
    return 14


def TIMEOUT(tier):
    return 900 if tier == "quick" else 5400


SCENARIOS = ["S0", "S1", "S2", "S3", "S4", "S5", "S6", "S7", "S8"]


def gen_cases(tier, seed):
    thorough = tier == "thorough"
    cases = []
    for mode in ("mem", "sqlite"):
        for sc in ("S0", "S1", "S2", "S3"):
            cases.append({"kind": "sched", "mode": mode, "scenario": sc, "n": 2, "strategy": "dfs", "p": 3 if thorough else (3 if sc == "S0" else 2), "seed": seed,
                          "budget": 600 if thorough else 40})
        for sc in ("S4", "S5", "S6", "S7"):
            cases.append({"kind": "sched", "mode": mode, "scenario": sc, "n": 2, "strategy": "dfs", "p": 2 if thorough else 1, "seed": seed,
                          "budget": 400 if thorough else 40})
        npct = 20000 if thorough else 400
        chunks = 40 if thorough else 8
        for j in range(chunks):
            sc = SCENARIOS[j % len(SCENARIOS)]
            cases.append({"kind": "sched", "mode": mode, "scenario": sc, "n": 3 + j % 2, "strategy": "pct", "count": npct // chunks // 2, "seed": seed * 977 + j,
                          "budget": 300 if thorough else 40})
    for j in range(3 if thorough else 1):
        cases.append({"kind": "proc", "n": 8 if thorough else 4, "seconds": 60 if thorough else 10, "seed": seed * 13 + j})
    return cases


LINES = None


def line_specs():
    """line-level yield points only inside the critical code of the in-memory backends; the poll / run code gets yield
    points at the probe boundaries (every set_invocation_status call and return) so schedules stay short"""
    from vlib import linemon
    return linemon.MEM_ORCH[:3] + linemon.MEM_BROKER + linemon.MEM_BLOCKING[2:]


class Run:
    """One scenario instance (fresh app) used for one schedule."""

    def __init__(self, mode, scenario, n, sc, td, idx, model):
        from vtasks import basic
        from vlib import probes
        from pynenc.invocation.status import InvocationStatus
        self.mode, self.scenario, self.sc, self.model = mode, scenario, sc, model
        def stamp():
            sc.yield_point("probe:boundary")
            return sc.stamp()
        self.log = probes.Log(stamp=stamp)
        self.probes = probes.install(self.log)
        self.body = []
        self.yielded = []
        db = td.db(f"c02_{idx % 40}.sqlite")
        if mode == "sqlite":
            for ext in ("", "-wal", "-shm"):
                try:
                    os.remove(db + ext)
                except FileNotFoundError:
                    pass
        conf = dict(cached_status_time=0.0, max_pending_seconds=0.0)
        self.app = app = make_app(mode, db, app_id=f"c02{mode}", **conf)
        self.task = app.task(basic.probed)
        self.ctxs = [runner_ctx("R", f"runner-{i}") for i in range(n)]

        def hook(ev, inv, extra):
            a = sc.actor()
            self.body.append({"ev": ev, "inv": inv, "actor": a.name if a else "?", "seq": self.log.add("body", ev=ev, inv=inv)["seq"]})
            sc.yield_point("probe:body-" + ev)
        basic.BODY_HOOK[0] = hook
        a = self.task(1).invocation_id
        self.ids = {"a": a}
        orch = app.orchestrator
        if scenario == "S2":
            b = self.task(2).invocation_id
            self.ids["b"] = b
            # queue: a, b  ->  a, a, b  (a duplicate message for a in front of b)
            app.broker.purge()
            app.broker.route_invocations([a, a, b])
        elif scenario == "S3":
            parent = self.task(9).invocation_id
            self.ids["parent"] = parent
            app.broker.purge()
            app.broker.route_invocation(a)
            pctx = runner_ctx("R", "parent-runner")
            orch.set_invocation_status(parent, InvocationStatus.PENDING, pctx)
            orch.set_invocation_status(parent, InvocationStatus.RUNNING, pctx)
            orch.waiting_for_results(parent, [a])
        elif scenario in ("S4", "S5"):
            b = self.task(2).invocation_id
            self.ids["b"] = b
        elif scenario == "S6":
            # retries: the body fails once with a retriable error, the invocation is re-queued and claimed again
            basic.ATTEMPTS.clear()
            flaky = app.task(basic.flaky, max_retries=2)
            app.broker.purge()
            self.ids = {"a": flaky(1, 5).invocation_id, "b": flaky(0, 6).invocation_id}
        elif scenario == "S8":
            # batch registration path: one parallelize call registers and routes several invocations at once
            app.broker.purge()
            group = list(self.task.parallelize([(10,), (11,), (12,)]))
            self.ids = {"a": group[0].invocation_id, "b": group[1].invocation_id, "c": group[2].invocation_id}
        elif scenario == "S7":
            # running concurrency control with re-routing: two invocations of one TASK-controlled task
            from pynenc.conf.config_task import ConcurrencyControlType
            cc = app.task(basic.probed_keyed, running_concurrency=ConcurrencyControlType.TASK, reroute_on_concurrency_control=True)
            app.broker.purge()
            self.ids = {"a": cc(1, 1).invocation_id, "b": cc(1, 2).invocation_id}
        self.n = n
        from vlib.apps import flush_history
        flush_history(app)  # setup-time history writers are real threads: let them finish before the controlled run starts
        self.spawn_actors()

    def poller(self, i, k=2, rounds=1):
        app, ctx = self.app, self.ctxs[i]

        def body():
            set_thread_ctx(app, ctx)
            try:
                for _ in range(rounds):
                    invs = list(app.orchestrator.get_invocations_to_run(k, ctx))
                    for inv in invs:
                        self.yielded.append((ctx.runner_id, inv.invocation_id))
                    for inv in invs:
                        try:
                            inv.run(ctx)
                        except Exception:
                            pass
            finally:
                clear_thread_ctx(app)
        return body

    def spawn_actors(self):
        sc, app = self.sc, self.app
        from pynenc.invocation.status import InvocationStatus
        if self.scenario == "S0":
            # the minimal contention: N runners ask for the same available invocation at once
            def claimer(i):
                def body():
                    try:
                        app.orchestrator.set_invocation_status(self.ids["a"], InvocationStatus.PENDING, self.ctxs[i])
                        self.yielded.append((self.ctxs[i].runner_id, self.ids["a"]))
                    except Exception:
                        pass
                return body
            for i in range(self.n):
                sc.spawn(f"claimer{i}", claimer(i))
        elif self.scenario in ("S6", "S7", "S8"):
            for i in range(self.n):
                sc.spawn(f"poller{i}", self.poller(i, k=2, rounds=3))
        elif self.scenario in ("S1", "S2", "S3"):
            for i in range(self.n):
                sc.spawn(f"poller{i}", self.poller(i, rounds=1 if self.scenario != "S2" else 2))
        elif self.scenario == "S4":
            # poller0 claims and runs; a 'stopper' acting for runner-0 kills and reroutes whatever runner-0 holds; other pollers poll
            sc.spawn("poller0", self.poller(0, k=1, rounds=2))
            runner = app.runner  # ThreadRunner object of the app (not started): only its _kill_and_reroute is used

            def stopper():
                set_thread_ctx(app, self.ctxs[0])
                try:
                    for inv_id in (self.ids["a"], self.ids["b"]):
                        runner._kill_and_reroute(inv_id, self.ctxs[0])
                finally:
                    clear_thread_ctx(app)
            sc.spawn("stopper", stopper)
            for i in range(1, self.n):
                sc.spawn(f"poller{i}", self.poller(i, k=1, rounds=2))
        elif self.scenario == "S5":
            from pynenc import core_tasks
            sc.spawn("poller0", self.poller(0, k=1, rounds=2))
            rctx = runner_ctx("R", "recovery-runner")

            def recovery():
                set_thread_ctx(app, rctx)
                try:
                    for _ in range(2):
                        try:
                            core_tasks.recover_pending_invocations.func()
                        except Exception as e:
                            self.log.add("recovery_raised", error=type(e).__name__)
                finally:
                    clear_thread_ctx(app)
            sc.spawn("recovery", recovery)
            for i in range(1, self.n):
                sc.spawn(f"poller{i}", self.poller(i, k=1, rounds=2))

    def finish(self):
        from vtasks import basic
        basic.BODY_HOOK[0] = None
        self.probes.uninstall()
        ev = self.log.events
        vios = []
        vios += oracles.chain_check(ev)
        lin, inconc = oracles.status_history_check(ev, self.model)
        vios += lin
        vios += oracles.body_overlap_check(self.body, ev)
        vios += oracles.yielded_vs_claims(self.yielded, ev)
        stats = {"transitions": self.log.counters["transition"], "set_status": self.log.counters["set_status"], "inconclusive": inconc,
                 "bodies": sum(1 for b in self.body if b["ev"] == "enter")}
        if not vios:
            return {"stats": stats} if False else None, stats
        hist = [{k: v for k, v in e.items() if k != "thread"} for e in ev if e["kind"] in ("set_status", "transition", "registered", "body", "recovery_raised")][-60:]
        return {"violations": [(s, w, wit) for s, w, wit in vios], "history": hist}, stats


def run_sched(case, V, hooks, distinct):
    from vlib import sched as S, shims as SH
    mode = case["mode"]
    edges, _, _ = load_doc_edges()
    model = Lifecycle(edges)
    td = TmpDir()
    counter = {"n": 0}
    totals = Counter()

    def scenario(sc):
        counter["n"] += 1
        run = Run(mode, case["scenario"], case["n"], sc, td, counter["n"], model)

        def fin():
            out, stats = run.finish()
            totals.update(stats)
            return out
        return fin

    shims = SH.Shims() if mode == "mem" else SH.Shims(threading_modules=["pynenc.state_backend.base_state_backend"], time_modules=["pynenc.util.sqlite_utils"])
    try:
        res = S.explore(scenario, strategy=case["strategy"], max_preemptions=case.get("p", 2), n=case.get("count", 50), seed=case["seed"],
                        sql=(mode == "sqlite"), lines=line_specs() if mode == "mem" else None, shims=shims, max_steps=6000,
                        time_budget=case.get("budget"), max_schedules=case.get("max_schedules", 100000))
    finally:
        td.close()
    hooks["schedules"] += res["schedules"]
    hooks["transitions_in_lock"] += totals["transitions"]
    hooks["set_status_ops"] += totals["set_status"]
    hooks["linearizability_checks"] += res["schedules"]
    hooks["bodies_run"] += totals["bodies"]
    hooks["proc_histories"] += 0
    for s_ in res["signatures_nontrivial"]:
        distinct.append([mode, case["scenario"], case["n"], s_])
    inconc = None
    if totals["inconclusive"]:
        inconc = f"{totals['inconclusive']} per-invocation linearizability searches hit their node budget"
    if res.get("inconclusive"):
        inconc = res["inconclusive"]
    for r in res["results"]:
        base = {"mode": mode, "scenario": case["scenario"], "choices": r["choices"], "trace_tail": r["trace"][-40:]}
        if r.get("deadlock"):
            V.append({"sig": f"deadlock:{mode}", "what": "every live actor is blocked", "witness": base})
        if r.get("error"):
            V.append({"sig": f"harness-error:{mode}", "what": r["error"][:400], "witness": base})
        out = r.get("out")
        if out:
            for sig, what, wit in out["violations"]:
                V.append({"sig": f"{sig}:{mode}", "what": what, "witness": {**base, "detail": wit, "history": out["history"]}})
    return res, inconc


# ------------------------------------------------------------------------------- process mode


def _proc_child(idx, db, app_id, logpath, stop_at, seed, go_at, ids):
    from vlib import sqlhook, probes
    from vtasks import basic
    sqlhook.install("delay", seed=seed, p=0.3, max_ms=1.5)
    log = probes.Log(stamp=time.monotonic_ns)
    probes.install(log)
    app = make_app("sqlite", db, app_id=app_id, cached_status_time=0.0)
    app.task(basic.probed)
    ctx = runner_ctx("R", f"proc-runner-{idx}")
    body = []
    basic.BODY_HOOK[0] = lambda ev, inv, extra: body.append({"ev": ev, "inv": inv, "actor": ctx.runner_id, "t": time.monotonic_ns()})
    yielded = []
    set_thread_ctx(app, ctx)
    rng = random.Random(seed)
    while time.monotonic() < go_at:
        pass
    while time.monotonic() < stop_at:
        try:
            invs = list(app.orchestrator.get_invocations_to_run(rng.choice([1, 2]), ctx))
        except Exception as e:
            log.add("poll_raised", error=f"{type(e).__name__}: {e}"[:200])
            continue
        for inv in invs:
            yielded.append((ctx.runner_id, inv.invocation_id))
        for inv in invs:
            try:
                inv.run(ctx)
            except Exception:
                pass
        # keep the system busy: put finished ids' duplicates back / re-route a random known id (duplicate messages)
        if rng.random() < 0.2:
            try:
                app.broker.route_invocation(rng.choice(ids))
            except Exception:
                pass
    for e in log.events:
        e["t"] = e.get("call") or 0
    with open(logpath, "w") as f:
        json.dump({"events": log.events, "body": body, "yielded": yielded}, f, default=repr)
    os._exit(0)


def run_proc(case, V, hooks, distinct):
    from vtasks import basic
    edges, _, _ = load_doc_edges()
    model = Lifecycle(edges)
    rounds = max(1, case["seconds"] // 3)
    rng = random.Random(case["seed"])
    with TmpDir() as td:
        for rnd in range(rounds):
            db = td.db(f"p{rnd}.sqlite")
            app_id = f"c02p{os.getpid()}r{rnd}"
            app = make_app("sqlite", db, app_id=app_id, cached_status_time=0.0)
            task = app.task(basic.probed)
            ids = [task(i).invocation_id for i in range(6)]
            reg = []
            for i in ids:
                r0 = app.orchestrator.get_invocation_status_record(i)
                reg.append({"kind": "registered", "invs": [i], "new": ["REGISTERED", r0.runner_id, r0.timestamp.timestamp()], "seq": -1})
            for i in ids[:3]:
                app.broker.route_invocation(i)  # duplicate messages
            from vlib.apps import flush_history
            flush_history(app)
            go_at = time.monotonic() + 0.3
            stop_at = go_at + 2.0
            kids = []
            for idx in range(case["n"]):
                lp = os.path.join(td.path, f"log_{rnd}_{idx}.json")
                pid = os.fork()
                if pid == 0:
                    try:
                        _proc_child(idx, db, app_id, lp, stop_at, rng.randrange(1 << 30) + idx, go_at, ids)
                    finally:
                        os._exit(3)
                kids.append((pid, lp))
            events, body, yielded = [], [], []
            for pid, lp in kids:
                os.waitpid(pid, 0)
                if os.path.exists(lp):
                    with open(lp) as f:
                        d = json.load(f)
                    events += d["events"]
                    body += d["body"]
                    yielded += [tuple(y) for y in d["yielded"]]
                else:
                    V.append({"sig": "proc:child-died", "what": "a poller process died", "witness": {}})
            # global order: the hook stamps are CLOCK_MONOTONIC; in-lock entries are serialized by the write lock
            for e in events:
                if e["kind"] == "transition":
                    e["order"] = e.get("t") or 0
            trans = sorted([e for e in events if e["kind"] == "transition"], key=lambda e: e["seq"])
            # per-process seq is local; order in-lock entries by their new/prev timestamps chain instead: use record timestamps
            trans.sort(key=lambda e: (e["new"][2] if e["new"] else (e["prev"][2] if e["prev"] else 0), 0 if e["error"] is None else 1))
            ev_for_chain = reg + [e for e in trans if e["error"] is None]
            hooks["proc_histories"] += 1
            hooks["transitions_in_lock"] += len(trans)
            ss = [e for e in events if e["kind"] == "set_status"]
            hooks["set_status_ops"] += len(ss)
            for sig, what, wit in oracles.chain_check(ev_for_chain):
                V.append({"sig": f"{sig}:sqlite-processes", "what": what, "witness": wit})
            lin, inconc = oracles.status_history_check(reg + ss, model)
            hooks["linearizability_checks"] += 1
            for sig, what, wit in lin:
                V.append({"sig": f"{sig}:sqlite-processes", "what": what, "witness": wit})
            for e in events:
                if e["kind"] == "poll_raised" and "locked" not in e["error"]:
                    V.append({"sig": "proc:poll-raised", "what": e["error"], "witness": {}})
            for sig, what, wit in oracles.yielded_vs_claims(yielded, ss):
                V.append({"sig": f"{sig}:sqlite-processes", "what": what, "witness": wit})
            # body overlap by wall-clock intervals
            per = {}
            for b in sorted(body, key=lambda b: b["t"]):
                per.setdefault(b["inv"], []).append(b)
            kills = [e for e in trans if e["error"] is None and e["req"] in ("KILLED", "PENDING_RECOVERY", "RUNNING_RECOVERY")]
            for inv, evs in per.items():
                open_by = {}
                for b in evs:
                    if b["ev"] == "enter":
                        if open_by and not kills:
                            V.append({"sig": "body-overlap:sqlite-processes", "what": f"invocation {inv[:8]} body running in two processes at once", "witness": {"events": evs[:10]}})
                        open_by[b["actor"]] = b["t"]
                    elif b["ev"] == "exit":
                        open_by.pop(b["actor"], None)
            claims = sorted([e for e in ss if e["req"] == "PENDING"], key=lambda e: e["call"])
            over = sum(1 for x, y in zip(claims, claims[1:]) if x["inv"] == y["inv"] and y["call"] < (x["ret"] or 0))
            if over or len(claims) > 6:
                distinct.append(["proc", case["seed"], rnd, over, len(claims)])
    hooks["schedules"] += 0


def run_case(case):
    hooks = Counter()
    V, distinct = [], []
    extra, inconc = {}, None
    if case["kind"] == "sched":
        res, inconc = run_sched(case, V, hooks, distinct)
        extra = {"sched_steps": res["steps"], "dfs_exhausted": 1 if res.get("exhausted") else 0, "dfs_cases": 1 if case["strategy"] == "dfs" else 0}
    else:
        run_proc(case, V, hooks, distinct)
    seen, out = Counter(), []
    for v in V:
        seen[v["sig"]] += 1
        if seen[v["sig"]] <= 2:
            out.append(v)
    return {"violations": out, "distinct": distinct, "hooks": dict(hooks), "events": hooks["transitions_in_lock"] + hooks["set_status_ops"],
            "evaluations": hooks["schedules"] + hooks["proc_histories"], "sample": case if case["id"] % 5 == 0 else None, "extra": extra, "inconclusive": inconc}
