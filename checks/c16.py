"""C16 - in-memory and SQLite backends are observationally equivalent.

Differential monitor: the same operation sequence is applied to an in-memory app and a SQLite app in lockstep under a shared
virtual clock; every return value (as a set where the order is unspecified), every raised error class and a read-out through
public getters after every operation are compared.  Invocation ids differ per backend and are compared by creation index.
Reference models for the status lifecycle (C01), the queue (C08), the wait graph (C09) and recovery (C04) run in their own
checks on both backends; here the two families are compared with each other on the wider alphabet.
"""
from __future__ import annotations

import hashlib
import itertools
import random
from collections import Counter
from datetime import UTC, datetime, timedelta

from vlib.apps import TmpDir, make_app, runner_ctx, set_thread_ctx, clear_thread_ctx, flush_history

PID = "C16"
LEVEL = "exploration"
RULE = ("operation alphabets per component (orchestrator: register / status change / queries by task, arguments, status, call / pagination / counts / "
        "filter-by-status / retries / heartbeats + active runners / recovery scans / auto-purge with clock advances / wait graph; broker; state backend: "
        "results, exceptions, history, workflow data, runs, sub-invocations, runner contexts, children, time-range; trigger store: conditions, triggers, valid "
        "conditions, claims with expiry, cron bookkeeping; client data store), small universes (3 tasks, 4 argument values, 3 runners, <= 8 invocations); "
        "exhaustive triples (9 operations) / quadruples (7 operations) over a reduced alphabet + seeded random sequences; distinct = sequence hash with >= 2 operation kinds that changed state")
ASSUMPTIONS = [
    "clock names rebound to one shared virtual clock (ticking, explicit advances); SQLite's julianday('now') stays real (queue order only)",
    "where the abstract base class leaves the order open results are compared as sets; a small limit on the blocking set is compared as 'a subset of the full set of the right size'",
    "operations removed from the alphabet because the documented contract is silent and both behaviours are defensible are listed in DESIGN.md",
]
REQUIRED_HOOKS = ["operations", "readouts_compared", "sequences", "model_comparisons"]


def WORKERS(tier):
    return 14


def TIMEOUT(tier):
    return 900 if tier == "quick" else 5400


COMPONENTS = ["orch", "state", "trigger", "cds", "broker", "waitpurge", "trigdefs"]


def gen_cases(tier, seed):
    thorough = tier == "thorough"
    cases = []
    n = 5000 if thorough else 300
    per = 100 if thorough else 10
    length = 300 if thorough else 100
    for i in range(n // per):
        cases.append({"kind": "rand", "seed": seed * 110017 + i, "n": per, "len": length, "component": COMPONENTS[i % len(COMPONENTS)] if i % 3 else "all"})
    for comp in COMPONENTS:
        cases.append({"kind": "exh", "component": comp, "L": 4 if thorough else 3, "seed": seed})
    # NOT registered: the enumerated wait-graph component (kind "waitgraph" in run_case) calls release_waiters directly on invocations that are
    # not final, which the real code never does; the two stores differ there (harness artefact, see DESIGN 11.5). To repair: release through the
    # real finishing path (status walk to SUCCESS) and size the enumeration for the quick tier.
    # cases.append({"kind": "waitgraph", "L": 4 if thorough else 3, "seed": seed})
    return cases


class Pair:
    """the two apps + index mapping"""

    def __init__(self, td, tag, clock):
        from pynenc.conf.config_task import ConcurrencyControlType
        from vtasks import basic
        self.clock = clock
        conf = dict(cached_status_time=0.0, max_pending_seconds=5.0, runner_considered_dead_after_minutes=1.0, auto_final_invocation_purge_hours=0.001, min_size_to_cache=32)
        self.apps = {"mem": make_app("mem", app_id=f"c16m{tag}", **conf), "sqlite": make_app("sqlite", td.db(f"{tag}.sqlite"), app_id=f"c16s{tag}", **conf)}
        self.tasks = {}
        for k, a in self.apps.items():
            self.tasks[k] = [a.task(basic.echo), a.task(basic.add), a.task(basic.keyed, running_concurrency=ConcurrencyControlType.KEYS, key_arguments=("k",))]
            a.broker, a.orchestrator, a.state_backend, a.trigger, a.client_data_store  # noqa
        self.ids = {"mem": [], "sqlite": []}
        self.ctxs = [runner_ctx("R", f"runner-{i}") for i in range(3)]
        self.refs = {"mem": [], "sqlite": []}

    def idx(self, k, inv_id):
        try:
            return self.ids[k].index(inv_id)
        except ValueError:
            return f"?{str(inv_id)[:6]}"

    def norm(self, k, v):
        """normalise a return value: invocation ids -> creation index"""
        if isinstance(v, str) and v in self.ids[k]:
            return self.ids[k].index(v)
        if isinstance(v, (list, tuple)):
            return [self.norm(k, x) for x in v]
        if isinstance(v, (set, frozenset)):
            return sorted((self.norm(k, x) for x in v), key=repr)
        if isinstance(v, dict):
            return {str(self.norm(k, a)): self.norm(k, b) for a, b in v.items()}
        return v


def call(fn):
    try:
        return ("ok", fn())
    except Exception as e:
        return ("err", type(e).__name__)


# ---------------------------------------------------------------------------------------------- operations
# an operation is (name, params); apply(pair, k, op) -> observation (already normalised)


def gen_op(rng, P: Pair, comp):
    n = len(P.ids["mem"])
    ARG = [0, 1, "a", "b"]
    from vlib.models.lifecycle import STATUSES
    def inv():
        return rng.randrange(n) if n and rng.random() < 0.9 else -1   # -1: an id nobody registered

    def status_op():
        from vlib.models.lifecycle import FROZEN_EDGES
        i = inv()
        run = rng.randrange(3)
        if i >= 0 and rng.random() < 0.7:
            try:
                rec = P.apps["mem"].orchestrator.get_invocation_status_record(P.ids["mem"][i])
                nxt = sorted(b for a, b in FROZEN_EDGES if a == rec.status.name)
                if nxt:
                    if rec.runner_id:
                        run = next((j for j, c in enumerate(P.ctxs) if c.runner_id == rec.runner_id), run)
                    return ("status", i, rng.choice(nxt), run)
            except Exception:
                pass
        return ("status", i, rng.choice(STATUSES), run)
    if comp == "trigdefs":
        # trigger definitions: several tasks' triggers on shared conditions, registered, re-registered, cleaned, listed
        r = rng.random()
        if r < 0.2:
            return ("t_reg_cond", rng.choice(["ev_a", "ev_b"]))
        if r < 0.5:
            return ("t_reg_trigger", rng.choice(["ev_a", "ev_b"]), rng.randrange(3), "x")
        if r < 0.65:
            return ("t_clean", rng.randrange(3))
        if r < 0.9:
            return ("t_get_triggers", rng.choice(["ev_a", "ev_b"]))
        if r < 0.95:
            return ("t_get_cond", rng.choice(["ev_a", "ev_b", "nope"]))
        return ("t_purge",)
    if comp == "waitpurge":
        r = rng.random()
        if n < 6 and (r < 0.12 or n < 2):
            return ("reg", rng.randrange(3), rng.choice(ARG), rng.choice([0, 0, 1]))
        if r < 0.5:
            return status_op()
        if r < 0.7:
            return ("wait", rng.randrange(n), tuple(rng.randrange(n) for _ in range(rng.randint(1, 2))))
        if r < 0.8:
            return ("blocking", rng.choice([1, 50]))
        if r < 0.9:
            return ("advance", rng.choice([1.0, 4.0]))
        return ("auto_purge",)
    if comp == "all":
        comp = rng.choice(COMPONENTS[:5])
    if comp == "orch":
        r = rng.random()
        if n < 8 and (r < 0.12 or n == 0):
            return ("reg", rng.randrange(3), rng.choice(ARG), rng.choice([0, 0, 1]))
        if r < 0.3:
            return status_op()
        if r < 0.36:
            return ("q_task", rng.randrange(3))
        if r < 0.44:
            # lookups by one, two or three serialized arguments (all must match)
            keys = {"k": rng.choice(ARG)}
            if rng.random() < 0.6:
                keys["v"] = rng.choice([0, 1])
            if rng.random() < 0.3:
                keys["w"] = rng.choice([0, 0, 5])
            if rng.random() < 0.15:
                keys.pop("k")
            return ("q_existing", 2, tuple(sorted(keys.items())), tuple(sorted(rng.sample(STATUSES, rng.randint(0, 3)))))
        if r < 0.5:
            return ("paginate", rng.choice([None, 0, 1, 2]), tuple(sorted(rng.sample(STATUSES, rng.randint(0, 2)))), rng.choice([0, 1, 2, 100]), rng.choice([0, 1, 3]))
        if r < 0.55:
            return ("count", rng.choice([None, 0, 1, 2]), tuple(sorted(rng.sample(STATUSES, rng.randint(0, 2)))))
        if r < 0.62:
            return ("filter", tuple(inv() for _ in range(rng.randint(0, 4))), tuple(sorted(rng.sample(STATUSES, rng.randint(0, 3)))))
        if r < 0.67:
            return ("retry_inc", inv())
        if r < 0.72:
            return ("retry_get", inv())
        if r < 0.78:
            return ("heartbeat", tuple(rng.sample(range(3), rng.randint(1, 2))), bool(rng.getrandbits(1)))
        if r < 0.83:
            return ("active", rng.choice([None, True, False]))
        if r < 0.87:
            return ("advance", rng.choice([0.5, 4.0, 5.5, 59.0, 61.0, 3.7]))
        if r < 0.9:
            return ("scan", rng.choice(["pending", "running"]))
        if r < 0.93:
            return ("auto_purge",)
        if r < 0.935:
            return ("q_call", inv())
        if r < 0.94:
            return ("o_purge",)
        if r < 0.97:
            # known ids only: the wait graph is fed from invocation objects; an id nobody registered cannot reach it through the public API
            return ("wait", rng.randrange(n), tuple(rng.randrange(n) for _ in range(rng.randint(1, 2)))) if n else ("active", None)
        return ("blocking", rng.choice([1, 2, 50]))
    if comp == "broker":
        r = rng.random()
        if r < 0.4:
            return ("b_route", rng.choice(["x", "y", "z"]))
        if r < 0.75:
            return ("b_retrieve",)
        if r < 0.95:
            return ("b_count",)
        return ("b_purge",)
    if comp == "state":
        r = rng.random()
        if n < 6 and r < 0.15 or n == 0:
            return ("reg", rng.randrange(3), rng.choice(ARG), rng.choice([0, 0, 1]))
        if r < 0.25:
            return ("s_set_result", inv(), rng.choice([1, "r" * 40, None, [1, 2]]))
        if r < 0.35:
            return ("s_get_result", inv())
        if r < 0.42:
            return ("s_set_exc", inv(), rng.choice(["ValueError", "KeyError"]))
        if r < 0.5:
            return ("s_get_exc", inv())
        if r < 0.56:
            return ("s_history", inv())
        if r < 0.63:
            return ("s_wf_set", inv(), rng.choice(["k1", "k2"]), rng.choice([1, "v", [1], None]))
        if r < 0.7:
            return ("s_wf_get", inv(), rng.choice(["k1", "k2", "zz"]), rng.choice([None, 7]))
        if r < 0.75:
            return ("s_wf_run", inv())
        if r < 0.8:
            return ("s_wf_types",)
        if r < 0.84:
            return ("s_wf_runs", rng.randrange(3))
        if r < 0.88:
            return ("s_sub_store", inv(), inv())
        if r < 0.91:
            return ("s_sub_get", inv())
        if r < 0.94:
            return ("s_ctx", rng.randrange(3))
        if r < 0.96:
            return ("s_ctx_match", rng.choice(["runner", "runner-1", "nner-", "zzz", "RUNNER", "runner_1", "r%", ""]))
        if r < 0.965:
            return ("s_children", inv())
        if r < 0.975:
            return ("s_by_wf", rng.choice([None, inv()]), rng.choice([None, 0, 1, 2]))
        if r < 0.985:
            return ("s_timerange", rng.choice([-1.0, -0.0015, 0.0]), rng.choice([0.0, -0.001, 10.0]), rng.choice([1, 2, 100]))
        if r < 0.99:
            return ("s_purge",)
        if r < 0.995:
            return ("advance", rng.choice([0.5, 3.0]))
        return ("status", inv(), rng.choice(STATUSES), rng.randrange(3))
    if comp == "trigger":
        r = rng.random()
        if r < 0.15:
            return ("t_reg_cond", rng.choice(["ev_a", "ev_b"]))
        if r < 0.25:
            return ("t_reg_cron", rng.choice(["* * * * *", "*/5 * * * *"]))
        if r < 0.35:
            return ("t_get_cond", rng.choice(["ev_a", "ev_b", "nope"]))
        if r < 0.45:
            return ("t_record", rng.choice(["ev_a", "ev_b"]), rng.randrange(3))
        if r < 0.55:
            return ("t_valid",)
        if r < 0.62:
            return ("t_clear", rng.randrange(3))
        if r < 0.75:
            return ("t_claim_run", rng.choice(["run1", "run2"]), rng.choice([0, 1, 60]))
        if r < 0.85:
            return ("t_claim_exec", rng.choice(["t1"]), rng.choice(["vc1", "vc2"]), rng.choice([0, 1, 60]))
        if r < 0.9:
            return ("advance", rng.choice([0.5, 1.5, 61.0]))
        if r < 0.91:
            return ("t_reg_trigger", rng.choice(["ev_a", "ev_b"]), rng.randrange(3), rng.choice(["tr1", "tr2"]))
        if r < 0.93:
            return ("t_get_triggers", rng.choice(["ev_a", "ev_b"]))
        if r < 0.932:
            return ("t_clean", rng.randrange(3))
        if r < 0.935:
            return ("t_purge",)
        if r < 0.96:
            return ("t_cron_store", rng.choice(["* * * * *", "*/5 * * * *"]), rng.randrange(4), rng.choice(["none", "current", "wrong"]))
        return ("t_cron_get", rng.choice(["* * * * *", "*/5 * * * *"]))
    # client data store
    r = rng.random()
    if r < 0.45:
        return ("c_store", rng.choice([1, "s" * 10, "L" * 40, ["x"] * 20, {"k": "v" * 50}, None, "L" * 40]))
    if r < 0.8:
        return ("c_resolve", rng.randrange(4))
    if r < 0.9:
        return ("c_resolve_missing",)
    return ("c_purge",)


def apply(P: Pair, k, op):
    from pynenc.invocation.status import InvocationStatus
    from pynenc.identifiers.invocation_id import InvocationId
    app = P.apps[k]
    orch, sb, tr, cds = app.orchestrator, app.state_backend, app.trigger, app.client_data_store
    name = op[0]

    def iid(i):
        return P.ids[k][i] if 0 <= i < len(P.ids[k]) else InvocationId(f"unknown-{i}")
    if name == "reg":
        t = P.tasks[k][op[1]]
        if op[1] == 2 and len(op) > 3:
            inv = t(op[2], op[3])      # keyed(k, v): a second argument that varies, so that several-argument lookups can match in part
        else:
            inv = t(op[2]) if op[1] != 1 else t(op[2] if isinstance(op[2], int) else 3, 1)
        P.ids[k].append(inv.invocation_id)
        return ("ok", len(P.ids[k]) - 1)
    if name == "status":
        return call(lambda: orch.set_invocation_status(iid(op[1]), InvocationStatus[op[2]], P.ctxs[op[3]]))
    if name == "q_task":
        return call(lambda: P.norm(k, set(orch.get_task_invocation_ids(P.tasks[k][op[1]].task_id))))
    if name == "q_existing":
        t = P.tasks[k][2]
        ser = app.client_data_store.serialize_arguments(dict(op[2]) if isinstance(op[2], tuple) else {"k": op[2]}, ())
        sts = [InvocationStatus[s] for s in op[3]] or None
        return call(lambda: P.norm(k, set(orch.get_existing_invocations(t, ser, sts))))
    if name == "paginate":
        tid = P.tasks[k][op[1]].task_id if op[1] is not None else None
        sts = [InvocationStatus[s] for s in op[2]] or None
        return call(lambda: P.norm(k, list(orch.get_invocation_ids_paginated(tid, sts, op[3], op[4]))))
    if name == "count":
        tid = P.tasks[k][op[1]].task_id if op[1] is not None else None
        sts = [InvocationStatus[s] for s in op[2]] or None
        return call(lambda: orch.count_invocations(tid, sts))
    if name == "filter":
        return call(lambda: P.norm(k, set(orch.filter_by_status([iid(i) for i in op[1]], frozenset(InvocationStatus[s] for s in op[2])))))
    def exists(i):
        try:
            orch.get_invocation_status(iid(i))
            return True
        except KeyError:
            return False
    if name == "retry_inc":
        # mutators on ids that do not exist (never registered / purged) are outside the documented contract (DESIGN.md): skipped, existence itself is compared
        if not exists(op[1]):
            return ("ok", "skipped:no-such-invocation")
        return call(lambda: orch.increment_invocation_retries(iid(op[1])))
    if name == "retry_get":
        return call(lambda: orch.get_invocation_retries(iid(op[1])))
    if name == "heartbeat":
        return call(lambda: orch.register_runner_heartbeats([P.ctxs[i].runner_id for i in op[1]], can_run_atomic_service=op[2]))
    if name == "active":
        return call(lambda: [(r.runner_id, r.creation_time.timestamp(), r.last_heartbeat.timestamp(), r.allow_to_run_atomic_service) for r in orch.get_active_runners(op[1])])
    if name == "advance":
        return ("ok", None)
    if name == "scan":
        f = orch.get_pending_invocations_for_recovery if op[1] == "pending" else orch.get_running_invocations_for_recovery
        return call(lambda: P.norm(k, set(f())))
    if name == "auto_purge":
        return call(lambda: orch.auto_purge())
    if name == "wait":
        if not all(exists(i) for i in (op[1],) + tuple(op[2])):
            return ("ok", "skipped:no-such-invocation")
        return call(lambda: orch.waiting_for_results(iid(op[1]), [iid(i) for i in op[2]]))
    if name == "release":
        if not exists(op[1]):
            return ("ok", "skipped:no-such-invocation")
        return call(lambda: orch.release_waiters(iid(op[1])))
    if name == "blocking":
        def go():
            # which subset a small limit returns is unspecified: compare (size, is a subset of the full set, the full set)
            full = set(orch.get_blocking_invocations(1000))
            got = list(orch.get_blocking_invocations(op[1]))
            return (len(got), len(set(got)) == len(got), set(got) <= full, P.norm(k, full))
        return call(go)
    if name == "q_call":
        def go():
            cid = sb.get_invocation(iid(op[1])).call_id
            return P.norm(k, set(orch.get_call_invocation_ids(cid)))
        return call(go)
    if name == "o_purge":
        return call(lambda: orch.purge())
    if name == "s_purge":
        # the state backend is purged together with the components that reference its records (app.purge()): purging it alone under a live
        # orchestrator is outside the documented contract (DESIGN.md 11.3)
        def go():
            flush_history(app)
            P.ids[k].clear()
            P.refs[k].clear()
            return app.purge()
        return call(go)
    if name == "t_purge":
        return call(lambda: tr.purge())
    if name == "s_by_wf":
        def go():
            wid = None if op[1] is None else str(sb.get_invocation(iid(op[1])).workflow.workflow_id)
            tk = None if op[2] is None else P.tasks[k][op[2]].task_id.key
            return P.norm(k, set(sb.get_invocation_ids_by_workflow(wid, tk)))
        return call(go)
    if name == "s_timerange":
        def go():
            flush_history(app)
            now = P.clock.peek()
            a = datetime.fromtimestamp(now + op[1] if op[1] > -1.0 else 0, UTC)
            b = datetime.fromtimestamp(now + op[2], UTC)
            batches = list(sb.iter_invocations_in_timerange(a, b, op[3]))
            flat = [x for bt in batches for x in bt]
            return (all(len(bt) <= op[3] for bt in batches), len(flat) == len(set(flat)), P.norm(k, set(flat)))
        return call(go)
    if name == "t_reg_trigger":
        def go():
            from pynenc.models.trigger_definition_dto import TriggerDefinitionDTO
            from pynenc.trigger.conditions.event import EventCondition
            from pynenc.trigger.conditions import CompositeLogic
            from pynenc.trigger.arguments.argument_filters import create_argument_filter
            cond = EventCondition(op[1], create_argument_filter(None))
            return tr.register_trigger(TriggerDefinitionDTO(trigger_id=f"tr_{op[1]}_{op[2]}",  # ids are content-derived in pynenc: same id => same content
                 task_id=P.tasks[k][op[2]].task_id, condition_ids=[cond.condition_id], logic=CompositeLogic.AND, argument_provider_json=None))
        return call(go)
    if name == "t_clean":
        # what re-registering a task's triggers does first: drop that task's trigger definitions (other tasks on the same condition keep theirs)
        return call(lambda: tr.clean_task_trigger_definitions(P.tasks[k][op[1]].task_id))
    if name == "t_get_triggers":
        def go():
            from pynenc.trigger.conditions.event import EventCondition
            from pynenc.trigger.arguments.argument_filters import create_argument_filter
            cond = EventCondition(op[1], create_argument_filter(None))
            return sorted((t.trigger_id, t.task_id.key if hasattr(t.task_id, "key") else str(t.task_id), sorted(t.condition_ids)) for t in tr.get_triggers_for_condition(cond.condition_id))
        return call(go)
    if name == "b_route":
        return call(lambda: app.broker.route_invocation(op[1]))
    if name == "b_retrieve":
        return call(lambda: P.norm(k, app.broker.retrieve_invocation()))
    if name == "b_count":
        return call(lambda: app.broker.count_invocations())
    if name == "b_purge":
        return call(lambda: app.broker.purge())
    if name == "s_set_result":
        return call(lambda: sb.set_result(iid(op[1]), op[2]))
    if name == "s_get_result":
        return call(lambda: sb.get_result(iid(op[1])))
    if name == "s_set_exc":
        return call(lambda: sb.set_exception(iid(op[1]), {"ValueError": ValueError, "KeyError": KeyError}[op[2]]("boom", 1)))
    if name == "s_get_exc":
        return call(lambda: (lambda e: (type(e).__name__, list(e.args)))(sb.get_exception(iid(op[1]))))
    if name == "s_history":
        flush_history(app)
        return call(lambda: sorted([h.status_record.status.name, h.status_record.runner_id, h.runner_context_id] for h in sb.get_history(iid(op[1]))))
    if name in ("s_wf_set", "s_wf_get", "s_wf_run"):
        def go():
            ident = sb.get_invocation(iid(op[1])).workflow
            if name == "s_wf_set":
                return sb.set_workflow_data(ident, op[2], op[3])
            if name == "s_wf_get":
                return sb.get_workflow_data(ident, op[2], op[3])
            return sb.store_workflow_run(ident)
        return call(go)
    if name == "s_wf_types":
        return call(lambda: sorted(t.key for t in sb.get_all_workflow_types()))
    if name == "s_wf_runs":
        return call(lambda: sorted(P.norm(k, [w.workflow_id for w in sb.get_workflow_runs(P.tasks[k][op[1]].task_id)]), key=repr))
    if name == "s_sub_store":
        return call(lambda: sb.store_workflow_sub_invocation(iid(op[1]), iid(op[2])))
    if name == "s_sub_get":
        return call(lambda: P.norm(k, set(sb.get_workflow_sub_invocations(iid(op[1])))))
    if name == "s_ctx":
        def go():
            sb.store_runner_context(P.ctxs[op[1]])
            c = sb.get_runner_context(P.ctxs[op[1]].runner_id)
            return c.runner_id if c else None
        return call(go)
    if name == "s_ctx_match":
        return call(lambda: sorted(c.runner_id for c in sb.get_matching_runner_contexts(op[1])))
    if name == "s_children":
        return call(lambda: P.norm(k, set(sb.get_child_invocations(iid(op[1])))))
    # ---- trigger store
    if name in ("t_reg_cond", "t_get_cond", "t_record"):
        from pynenc.trigger.conditions.event import EventCondition, EventContext
        from pynenc.trigger.conditions.base import ValidCondition
        from pynenc.trigger.arguments.argument_filters import create_argument_filter
        cond = EventCondition(op[1], create_argument_filter(None))
        if name == "t_reg_cond":
            return call(lambda: tr.register_condition(cond))
        if name == "t_get_cond":
            return call(lambda: (lambda c: c.condition_id if c else None)(tr.get_condition(cond.condition_id)))
        return call(lambda: tr.record_valid_condition(ValidCondition(cond, EventContext(event_code=op[1], payload={}, event_id=f"e{op[2]}"))))
    if name == "t_reg_cron":
        from pynenc.trigger.conditions.cron import CronCondition
        return call(lambda: tr.register_condition(CronCondition(op[1])))
    if name == "t_valid":
        return call(lambda: sorted(tr.get_valid_conditions()))
    if name == "t_clear":
        def go():
            vcs = tr.get_valid_conditions()
            keys = sorted(vcs)
            sel = [vcs[x] for x in keys[op[1]:op[1] + 1]]
            tr.clear_valid_conditions(sel)
            return len(sel)
        return call(go)
    if name == "t_claim_run":
        return call(lambda: tr.claim_trigger_run(op[1], op[2]))
    if name == "t_claim_exec":
        return call(lambda: tr.claim_trigger_execution(op[1], op[2], op[3]))
    if name in ("t_cron_store", "t_cron_get"):
        from pynenc.trigger.conditions.cron import CronCondition
        cron = CronCondition(op[1])
        cid = cron.condition_id
        # bookkeeping only for registered conditions (the contract is silent about unregistered ones; see DESIGN.md)
        if tr.get_condition(cid) is None:
            tr.register_condition(cron)
        if name == "t_cron_get":
            return call(lambda: (lambda d: d.isoformat() if d else None)(tr.get_last_cron_execution(cid)))
        base = datetime(2025, 1, 1, tzinfo=UTC)

        def go():
            cur = tr.get_last_cron_execution(cid)
            exp = None if op[3] == "none" else (cur if op[3] == "current" else base - timedelta(days=1))
            return tr.store_last_cron_execution(cid, base + timedelta(minutes=op[2]), exp)
        return call(go)
    # ---- client data store
    if name == "c_store":
        def go():
            ref = cds.serialize(op[1])
            P.refs[k].append(ref)
            return ("ref" if cds.is_reference(ref) else "inline", cds.resolve(ref))
        return call(go)
    if name == "c_resolve":
        refs = P.refs[k]
        if not refs:
            return ("ok", None)
        return call(lambda: cds.resolve(refs[op[1] % len(refs)]))
    if name == "c_resolve_missing":
        return call(lambda: cds.resolve("__pynenc__client_data__:" + "0" * 64))
    if name == "c_purge":
        return call(lambda: cds.purge())
    raise ValueError(name)


def readout(P: Pair, k):
    """public getters only, normalised"""
    app = P.apps[k]
    orch, sb, tr = app.orchestrator, app.state_backend, app.trigger
    out = {}
    per = []
    for i, inv in enumerate(P.ids[k]):
        st = call(lambda: (lambda r: (r.status.name, r.runner_id, round(r.timestamp.timestamp(), 5)))(orch.get_invocation_status_record(inv)))
        per.append([st, call(lambda: orch.get_invocation_retries(inv)), call(lambda: repr(sb.get_result(inv))[:40]), call(lambda: sb.get_invocation(inv) is not None)])
    out["invocations"] = per
    out["count"] = call(orch.count_invocations)
    out["queue_len"] = call(app.broker.count_invocations)
    out["active"] = call(lambda: sorted(r.runner_id for r in orch.get_active_runners()))
    out["blocking"] = call(lambda: P.norm(k, set(orch.get_blocking_invocations(100))))
    out["valid"] = call(lambda: sorted(tr.get_valid_conditions()))
    return out


class Model:
    """small executable reference model of the documented contract for the clock-dependent and counting operations"""

    def __init__(self):
        self.claims = {}
        self.cron = {}
        self.retries = {}
        self.runners = {}     # runner -> [created, last, eligible]
        self.queue = []
        self.purged_all = False

    def expect(self, P, op, now):
        """returns (True, value) when the model defines the outcome of this operation"""
        n = op[0]
        if n in ("t_claim_run", "t_claim_exec"):
            key = (n, op[1]) if n == "t_claim_run" else (n, op[1], op[2])
            ttl = op[2] if n == "t_claim_run" else op[3]
            exp = self.claims.get(key)
            if exp is not None and exp > now:
                return True, False
            self.claims[key] = now + ttl
            return True, True
        if n == "t_purge":
            self.claims.clear(); self.cron.clear()
            return False, None
        if n == "s_purge":       # app.purge(): every component
            self.claims.clear(); self.cron.clear(); self.runners.clear(); self.queue.clear()
            return False, None
        if n == "t_cron_get":
            v = self.cron.get(op[1])
            return True, v
        if n == "t_cron_store":
            base = datetime(2025, 1, 1, tzinfo=UTC)
            cur = self.cron.get(op[1])
            exp = None if op[3] == "none" else (cur if op[3] == "current" else (base - timedelta(days=1)).isoformat())
            if cur != exp:
                return True, False
            self.cron[op[1]] = (base + timedelta(minutes=op[2])).isoformat()
            return True, True
        if n == "heartbeat":
            for i in op[1]:
                r = self.runners.get(i)
                if r is None:
                    self.runners[i] = [now, now, op[2], op[2]]
                else:
                    r[1] = now      # documented: "For runners that already exist, only updates the heartbeat timestamp"
                    r[3] = op[2]    # what both implementations do (tracked to classify the known finding)
            return False, None
        if n == "o_purge":
            self.runners.clear()
            return False, None
        if n == "active":
            out = [(f"runner-{i}", c, l, e) for i, (c, l, e, _) in self.runners.items() if now - l <= 60.0 and (op[1] is None or e == op[1])]
            out.sort(key=lambda x: x[1])
            self.alt = sorted([(f"runner-{i}", c, l, e) for i, (c, l, _, e) in self.runners.items() if now - l <= 60.0 and (op[1] is None or e == op[1])], key=lambda x: x[1])
            return True, out
        if n == "b_route":
            self.queue.append(op[1]); return False, None
        if n == "b_purge":
            self.queue.clear(); return False, None
        if n == "b_count":
            return (True, len(self.queue)) if not self.foreign_queue else (False, None)
        return False, None

    foreign_queue = False


def compare(P, op, res, V, trail, what):
    a, b = res["mem"], res["sqlite"]
    if a == b:
        return True
    name = op[0]
    detail = "error-class" if (a[0] == "err" or b[0] == "err") else "value"
    unknown = any(isinstance(x, int) and x < 0 for x in op[1:] if not isinstance(x, tuple)) or any(isinstance(t, tuple) and any(isinstance(y, int) and y < 0 for y in t) for t in op[1:])
    sig = f"diverge:{what}:{name}:{detail}" + (":unknown-id" if unknown else "")
    V.append({"sig": sig, "what": f"{name}{op[1:]!r}: mem -> {a!r:.150}  sqlite -> {b!r:.150}", "witness": {"op": list(map(repr, op)), "mem": repr(a)[:400], "sqlite": repr(b)[:400], "trail": [list(map(repr, t)) for t in trail[-12:]]}})
    return False


SEQ_NO = [0]


def run_sequence(P, ops_iter, V, hooks, clock):
    SEQ_NO[0] += 1
    clock.set(1_700_000_000.0 + SEQ_NO[0] * 100_000.0)   # a round start per sequence: 1 ms steps stay exact to well below the compared millisecond
    trail = []
    kinds_changed = set()
    model = Model()
    for op in ops_iter:
        clock.advance(op[1] if op[0] == "advance" else 0.001)   # the clock is frozen during an operation: both backends see the same instant
        res = {}
        for k in ("mem", "sqlite"):
            set_thread_ctx(P.apps[k], P.ctxs[0])
            try:
                res[k] = apply(P, k, op)
            finally:
                clear_thread_ctx(P.apps[k])
        hooks["operations"] += 1
        trail.append(op)
        ok = compare(P, op, res, V, trail, "return")
        if not ok:
            return trail, kinds_changed, False
        if op[0] in ("reg", "status", "b_retrieve", "o_purge", "scan", "auto_purge"):
            model.foreign_queue = True     # the queue also receives ids from the orchestrator: only the two families are compared from here on
        defined, want = model.expect(P, op, clock.peek())
        if defined and res["mem"][0] == "ok":
            hooks["model_comparisons"] += 1
            got = res["mem"][1]
            if op[0] == "active":
                q = lambda rows: [(a, round(b * 1000), round(c * 1000), d) for a, b, c, d in rows]   # noqa: E731  (milliseconds: the clock moves in >= 1 ms steps)
                got, want, alt = q(got), q(want), q(model.alt)
                if len({x[1] for x in want}) != len(want):   # equal creation instants: order unspecified
                    got, want = sorted(got), sorted(want)
            if got != want and op[0] == "active" and sorted(got) == sorted(alt):
                hooks["known_eligibility_overwrites"] += 1
                V.append({"sig": "model:active:later-heartbeat-overwrites-eligibility-of-existing-runner",
                          "what": f"active{op[1:]!r}: both backends report the eligibility given by the latest heartbeat; the documented contract keeps the one given at creation",
                          "witness": {"got": repr(got)[:400], "documented": repr(want)[:400], "trail": [list(map(repr, t)) for t in trail[-12:]]}})
            elif got != want:
                V.append({"sig": f"model:{op[0]}", "what": f"{op[0]}{op[1:]!r}: both backends -> {got!r:.150} but the documented contract gives {want!r:.150}",
                          "witness": {"op": list(map(repr, op)), "got": repr(got)[:400], "model": repr(want)[:400], "trail": [list(map(repr, t)) for t in trail[-12:]]}})
                return trail, kinds_changed, False
        if res["mem"][0] == "ok" and op[0] in ("reg", "status", "retry_inc", "heartbeat", "auto_purge", "wait", "release", "b_route", "b_retrieve", "s_set_result", "s_set_exc", "s_wf_set",
                                                 "s_sub_store", "t_record", "t_clear", "t_claim_run", "t_cron_store", "c_store", "c_purge", "b_purge", "o_purge", "s_purge", "t_purge", "t_reg_trigger", "t_clean", "c_resolve", "t_reg_cond", "t_claim_exec"):
            kinds_changed.add(op[0])
        ro = {k: ("ok", readout(P, k)) for k in ("mem", "sqlite")}
        hooks["readouts_compared"] += 1
        if not compare(P, ("readout-after",) + tuple(op), ro, V, trail, "later-observation"):
            return trail, kinds_changed, False
    return trail, kinds_changed, True


def run_case(case):
    from vlib import vclock
    hooks = Counter()
    V, distinct = [], []
    rng = random.Random(case["seed"])
    clock = vclock.VClock(start=1_700_000_000.0, tick=0.0)
    inst = vclock.install(clock)
    try:
        with TmpDir() as td:
            if case["kind"] == "rand":
                for n in range(case["n"]):
                    P = Pair(td, f"{case['seed']}_{n}", clock)

                    def ops():
                        for _ in range(case["len"]):
                            yield gen_op(rng, P, case["component"])
                    trail, kinds, ok = run_sequence(P, ops(), V, hooks, clock)
                    hooks["sequences"] += 1
                    if len(kinds) >= 2:
                        distinct.append([case["component"], hashlib.sha1(repr(trail).encode()).hexdigest()[:12]])
                    for a in P.apps.values():
                        flush_history(a)
            elif case["kind"] == "waitgraph":
                # every sequence of wait / release operations of the given length over three registered invocations; the blocking set is part of
                # the read-out compared after every operation (small enough to enumerate: histories like "B waits for A, A is released, C waits for B")
                alphabet = [("wait", i, (j,)) for i in range(3) for j in range(3) if i != j] + [("release", i) for i in range(3)]
                count = 0
                for L in range(2, case["L"] + 1):
                    for seq in itertools.product(alphabet, repeat=L):
                        if L > 3 and sum(1 for o in seq if o[0] == "release") != 1:
                            continue      # length 4: exactly one release among three waits (the others are covered by the random walks)
                        count += 1
                        P = Pair(td, f"wg{count % 40}_{count}", clock)
                        pre = [("reg", 0, 0), ("reg", 2, "a"), ("reg", 2, "b")]
                        trail, kinds, ok = run_sequence(P, pre + list(seq) + [("blocking", 50)], V, hooks, clock)
                        hooks["sequences"] += 1
                        hooks["waitgraph_sequences"] += 1
                        distinct.append(["waitgraph", "exh", [(o[0],) + tuple(o[1:]) for o in seq]])
                        for a in P.apps.values():
                            flush_history(a)
                        if count % 25 == 0 and len(V) > 200:
                            break
            else:
                # exhaustive short sequences over a reduced alphabet of the component (after a fixed small preamble)
                comp = case["component"]
                r0 = random.Random(7)
                Pgen = Pair(td, f"gen{comp}", clock)
                for _ in range(3):
                    apply(Pgen, "mem", ("reg", 0, 0)), apply(Pgen, "sqlite", ("reg", 0, 0))
                alphabet = []
                seen = set()
                for _ in range(400):
                    o = gen_op(r0, Pgen, comp)
                    if o[0] not in seen and o[0] != "reg":
                        seen.add(o[0])
                        alphabet.append(o)
                alphabet = alphabet[:9 if case["L"] <= 3 else 7]
                count = 0
                for seq in itertools.product(alphabet, repeat=case["L"]):
                    count += 1
                    P = Pair(td, f"x{comp}{count % 40}_{count}", clock)
                    pre = [("reg", 0, 0), ("reg", 2, "a"), ("reg", 2, "b")] if comp in ("orch", "state", "waitpurge") else []
                    trail, kinds, ok = run_sequence(P, pre + list(seq), V, hooks, clock)
                    hooks["sequences"] += 1
                    distinct.append([comp, "exh", [o[0] for o in seq]])
                    for a in P.apps.values():
                        flush_history(a)
                    if count % 25 == 0 and len(V) > 200:
                        break
    finally:
        inst.uninstall()
    seen, out = Counter(), []
    for v in V:
        seen[v["sig"]] += 1
        if seen[v["sig"]] <= 2:
            out.append(v)
    dset = {tuple(map(str, d)) for d in distinct}
    return {"violations": out, "distinct": [list(d) for d in dset], "hooks": dict(hooks), "events": hooks["operations"], "evaluations": hooks["sequences"],
            "sample": case if case["id"] % 6 == 0 else None}
