"""C15 - arguments and results round-trip unchanged; call identity is canonical; content addressing.

Monitors (all on the real code):
  ser   : deserialize(serialize(v)) == v per serializer domain (structural, NaN-aware, type-exact)
  store : size routing (inline below the threshold, reference at/above), equal content -> equal reference,
          a reference resolves to the content it was created from (same instance, fresh instance, after the
          client mutated its original object)
  ident : spellings of one call (positional / keyword / defaults omitted / task.args / parallelize forms) -> one call_id
  argsid: compute_args_id(m1) == compute_args_id(m2)  <=>  m1 == m2 (as maps), incl. adversarial separators
  e2e   : client -> storage -> worker (kwargs seen by the body) -> result -> client through the stepping harness
"""
from __future__ import annotations

import copy
import random
from collections import Counter

from vlib.apps import TmpDir, make_app, runner_ctx, set_thread_ctx, clear_thread_ctx
from vlib.gen.values import gen_value, gen_exception, same, shape

PID = "C15"
LEVEL = "exploration"
RULE = ("values generated recursively inside each serializer's domain (json / jsonpickle / pickle) x stores (mem, sqlite) x thresholds "
        "{16, 64, 1024} x disable options; spellings of one call per signature; pairs of argument maps (equal, permuted, one key/value "
        "changed, separators moved between key and value); distinct = (monitor, serializer, canonical value shape or pair class, "
        "inline/external); composed values (exception args holding enums/exceptions, strings that look like a store reference) are "
        "generated under their own signatures")
ASSUMPTIONS = [
    "tuples, sets, non-string keys are outside the JSON serializer's domain; int-keyed dicts outside jsonpickle's",
    "structural equality: exact types, NaN == NaN, -0.0 != 0.0, exceptions by type and args",
]
REQUIRED_HOOKS = ["ser_roundtrips", "store_roundtrips", "ident_spellings", "argsid_pairs", "e2e_calls", "mutation_probes", "resend_after_mutation", "ident_sibling_functions", "near_collision_pairs"]
SERIALIZERS = {"json": "JsonSerializer", "jsonpickle": "JsonPickleSerializer", "pickle": "PickleSerializer"}


def WORKERS(tier):
    return 12


def gen_cases(tier, seed):
    thorough = tier == "thorough"
    cases = []
    nval = 300000 if thorough else 3000
    per = 2500 if thorough else 250
    i = 0
    for k in range(nval // per):
        for dom in SERIALIZERS:
            cases.append({"kind": "ser", "domain": dom, "seed": seed * 9973 + i, "n": per // 3})
            i += 1
    for dom in SERIALIZERS:
        for backend in ("mem", "sqlite"):
            for thr in (16, 64, 1024):
                for rep in range(4 if thorough else 1):
                    cases.append({"kind": "store", "domain": dom, "backend": backend, "threshold": thr, "seed": seed * 31 + i, "n": 400 if thorough else 40})
                    i += 1
    for rep in range(40 if thorough else 4):
        cases.append({"kind": "argsid", "seed": seed * 17 + i, "n": 5000 if thorough else 500})
        i += 1
    for dom in SERIALIZERS:
        for backend in ("mem", "sqlite"):
            cases.append({"kind": "ident", "domain": dom, "backend": backend, "seed": seed * 13 + i, "n": 60 if thorough else 12})
            i += 1
            cases.append({"kind": "e2e", "domain": dom, "backend": backend, "seed": seed * 7 + i, "n": 800 if thorough else 35})
            i += 1
    return cases


# --------------------------------------------------------------------------------------------


def get_serializer(dom):
    import pynenc.serializer.json_serializer as js, pynenc.serializer.json_pickle_serializer as jp, pynenc.serializer.pickle_serializer as pk
    return {"json": js.JsonSerializer, "jsonpickle": jp.JsonPickleSerializer, "pickle": pk.PickleSerializer}[dom]


def value_class(v):
    """signature suffix for composed / adversarial values (triaged separately from the plain domain)"""
    def walk(x, in_exc=False):
        from enum import Enum
        if isinstance(x, BaseException):
            for a in x.args:
                if isinstance(a, (Enum, BaseException, tuple, list, dict)) and not isinstance(a, (str, int)):
                    return "exc-args-composed"
                r = walk(a, True)
                if r:
                    return r
            return None
        if isinstance(x, (list, tuple, set, frozenset)):
            for a in x:
                r = walk(a, in_exc)
                if r:
                    return r
        if isinstance(x, dict):
            for k, a in x.items():
                if isinstance(k, str) and k.startswith("__pynenc__"):
                    return "reserved-key"
                r = walk(a, in_exc)
                if r:
                    return r
        if isinstance(x, str) and x.startswith("__pynenc__client_data__"):
            return "reference-lookalike"
        return None
    return walk(v) or "plain"


def run_ser(case, V, hooks, distinct):
    rng = random.Random(case["seed"])
    dom = case["domain"]
    ser = get_serializer(dom)
    for _ in range(case["n"]):
        composed = rng.random() < 0.15
        v = gen_exception(rng, dom, 0, composed=True) if composed else gen_value(rng, dom)
        if rng.random() < 0.03:  # adversarial: user data that looks like one of the serializer's envelopes
            key = rng.choice(["__pynenc__std_py_exc__", "__pynenc__enum__", "__pynenc__json_serializable__", "__pynenc__client_exception__"])
            v = {key: rng.choice([{"type": "ValueError", "args": [1], "message": "m"}, {"module": "vtasks.vtypes", "qualname": "Color", "value": "red"}, "x", 1])}
        hooks["ser_roundtrips"] += 1
        try:
            s = ser.serialize(v)
            back = ser.deserialize(s)
        except Exception as e:
            V.append({"sig": f"ser:raised:{dom}:{value_class(v)}", "what": f"{dom}: round-trip of {shape(v)} raised {type(e).__name__}: {e}"[:300],
                      "witness": {"value": repr(v)[:400]}})
            continue
        distinct.append(["ser", dom, shape(v)])
        if not same(v, back):
            V.append({"sig": f"ser:changed:{dom}:{value_class(v)}", "what": f"{dom}: {repr(v)[:120]} came back as {repr(back)[:120]}",
                      "witness": {"value": repr(v)[:600], "back": repr(back)[:600], "serialized": s[:600], "shape": shape(v)}})


def run_store(case, V, hooks, distinct):
    rng = random.Random(case["seed"])
    dom, backend, thr = case["domain"], case["backend"], case["threshold"]
    with TmpDir() as td:
        app_id = f"c15s{case['seed']}"
        conf = dict(serializer_cls=SERIALIZERS[dom], min_size_to_cache=thr, app_id=app_id)
        app = make_app(backend, td.db(), **conf)
        off = make_app(backend, td.db(), **{**conf, "app_id": app_id + "off", "disable_client_data_store": True})
        cds, ser = app.client_data_store, app.serializer
        for _ in range(case["n"]):
            v = gen_value(rng, dom)
            if rng.random() < 0.4:  # straddle the threshold
                pad = "x" * max(0, thr + rng.randrange(-6, 7) - 2)
                v = rng.choice([pad, [pad], {"k": pad}])
            if value_class(v) != "plain":
                continue
            try:
                raw = ser.serialize(v)
            except Exception:
                continue
            hooks["store_roundtrips"] += 1
            original = copy.deepcopy(v)
            ref = cds.serialize(v)
            is_ref = cds.is_reference(ref)
            distinct.append(["store", dom, backend, thr, "external" if is_ref else "inline", shape(v)])
            wit = {"value": repr(original)[:300], "size": len(raw), "threshold": thr, "ref": ref[:90]}
            if len(raw) < thr and is_ref:
                V.append({"sig": "store:externalised-below-threshold", "what": f"size {len(raw)} < {thr} but stored externally", "witness": wit})
            if len(raw) >= thr and not is_ref:
                V.append({"sig": "store:inline-at-or-above-threshold", "what": f"size {len(raw)} >= {thr} but kept inline", "witness": wit})
            if not is_ref and ref != raw:
                V.append({"sig": "store:inline-not-serialized-form", "what": "inline value differs from the serializer output", "witness": wit})
            twin = copy.deepcopy(original)
            ref2 = cds.serialize(twin)
            if ser.serialize(twin) != raw:
                # content addressing is over the serialized content: an equal value whose serialization is not canonical (e.g. a set whose
                # iteration order changed in the copy) legitimately gets another key
                hooks["noncanonical_serializations_skipped"] += 1
            elif ref2 != ref:
                V.append({"sig": "store:equal-content-different-reference", "what": f"{ref[:80]} vs {ref2[:80]}", "witness": wit})
            if cds.is_reference(off.client_data_store.serialize(original)):
                V.append({"sig": "store:disabled-store-externalised", "what": "disable_client_data_store=True still externalised", "witness": wit})
            if cds.is_reference(cds.serialize(original, disable_cache=True)):
                V.append({"sig": "store:disable-cache-externalised", "what": "disable_cache=True still externalised", "witness": wit})
            try:
                back = cds.resolve(ref)
            except Exception as e:
                V.append({"sig": "store:resolve-raised", "what": f"{type(e).__name__}: {e}"[:200], "witness": wit})
                continue
            if not same(original, back):
                V.append({"sig": "store:resolved-other-content", "what": f"{repr(original)[:100]} resolved to {repr(back)[:100]}", "witness": wit})
            if is_ref:
                # a different content must not share the reference
                other = copy.deepcopy(original)
                other = [other, 1]
                ref3 = cds.serialize(other)
                if ref3 == ref:
                    V.append({"sig": "store:different-content-same-reference", "what": "two contents share one reference", "witness": wit})
                # fresh store instance (another process would have one): only meaningful for the sqlite store
                if backend == "sqlite":
                    app2 = make_app(backend, td.db(), **conf)
                    try:
                        b2 = app2.client_data_store.resolve(ref)
                        if not same(original, b2):
                            V.append({"sig": "store:fresh-instance-other-content", "what": f"fresh instance resolved {repr(b2)[:100]}", "witness": wit})
                    except Exception as e:
                        V.append({"sig": "store:fresh-instance-raised", "what": f"{type(e).__name__}: {e}"[:200], "witness": wit})
                # another instance of the same application purges the shared store; the first instance serializes the same content again:
                # the reference it hands out must resolve (for everybody) to that content
                if backend == "sqlite" and rng.random() < 0.3:
                    hooks["purge_by_other_instance"] += 1
                    pv = [copy.deepcopy(original), "purge-probe", rng.random()]
                    pref = cds.serialize(copy.deepcopy(pv))
                    if cds.is_reference(pref):
                        admin = make_app(backend, td.db(), **conf)
                        admin.client_data_store.purge()
                        pref2 = cds.serialize(copy.deepcopy(pv))
                        for who, store in (("serializing instance", cds), ("fresh instance", make_app(backend, td.db(), **conf).client_data_store)):
                            try:
                                b6 = store.resolve(pref2)
                                if not same(pv, b6):
                                    V.append({"sig": "store:reference-after-foreign-purge:other-content", "what": f"{who} resolved {repr(b6)[:100]}", "witness": wit})
                            except Exception as e:
                                V.append({"sig": f"store:reference-after-foreign-purge:unresolvable:{'same' if store is cds else 'fresh'}-instance",
                                          "what": f"a reference handed out by serialize() after another instance purged the store does not resolve on the {who}: {type(e).__name__}: {e}"[:300], "witness": wit})
                # the client sends an object, changes it in place and sends it again: the second reference stands for the second content
                if isinstance(original, (list, dict)):
                    hooks["resend_after_mutation"] += 1
                    rv = [copy.deepcopy(original), "resend-probe", rng.random()]
                    rv_first = copy.deepcopy(rv)
                    r1 = cds.serialize(rv)
                    rv.append("GROWN-" * rng.randrange(1, 4))
                    rv_second = copy.deepcopy(rv)
                    r2 = cds.serialize(rv)
                    if cds.is_reference(r1) and cds.is_reference(r2):
                        if r1 == r2:
                            V.append({"sig": "store:resend-after-mutation:same-reference", "what": "an object serialized, grown in place and serialized again got the reference of its old content", "witness": wit})
                        if cds.serialize(copy.deepcopy(rv_second)) != r2 and ser.serialize(copy.deepcopy(rv_second)) == ser.serialize(rv_second):
                            V.append({"sig": "store:equal-content-different-reference", "what": "after a re-send of a mutated object an equal fresh copy gets another reference", "witness": wit})
                        readers = [("serializing instance", cds)]
                        if backend == "sqlite":
                            readers.append(("fresh instance", make_app(backend, td.db(), **conf).client_data_store))
                        for who, store in readers:
                            for rr, want, which in ((r2, rv_second, "second"), (r1, rv_first, "first")):
                                if store is cds and which == "first":
                                    continue   # same-process aliasing of the first reference is the listed LRU finding, probed below
                                try:
                                    got = store.resolve(rr)
                                except Exception as e:
                                    V.append({"sig": "store:resend-after-mutation:unresolvable", "what": f"{who}, {which} reference: {type(e).__name__}: {e}"[:200], "witness": wit})
                                    continue
                                if not same(want, got):
                                    V.append({"sig": f"store:resend-after-mutation:{which}-reference-other-content",
                                              "what": f"{who}: the {which} reference resolves to {repr(got)[-80:]}, sent was {repr(want)[-80:]}", "witness": wit})
                # aliasing probes on a value of their own (serialized exactly once, as a client would)
                if isinstance(original, (list, dict)):
                    hooks["mutation_probes"] += 1
                    mv = [copy.deepcopy(original), "probe", rng.random()]
                    mv_orig = copy.deepcopy(mv)
                    mref = cds.serialize(mv)
                    if cds.is_reference(mref):
                        mv.append("MUTATED-BY-CLIENT")  # the client goes on using (and changing) its own object
                        b3 = cds.resolve(mref)
                        if not same(mv_orig, b3):
                            V.append({"sig": "store:aliasing:client-mutation-visible",
                                      "what": "after the client mutated its own object the reference resolves to the mutated content (same process)", "witness": wit})
                    # independent probe: a consumer mutates what it resolved (store instance that did not serialize the value)
                    cv = [copy.deepcopy(original), "consumer-probe", rng.random()]
                    cref = cds.serialize(copy.deepcopy(cv))
                    if cds.is_reference(cref) and backend == "sqlite":
                        consumer = make_app(backend, td.db(), **conf).client_data_store
                        b4 = consumer.resolve(cref)
                        if same(cv, b4):
                            b4.append("MUTATED-BY-CONSUMER")
                            b5 = consumer.resolve(cref)
                            if not same(cv, b5):
                                V.append({"sig": "store:aliasing:consumer-mutation-visible",
                                          "what": "a consumer's mutation of a resolved value is visible to the next resolve of the same reference (same process)", "witness": wit})
        # near-collisions: values of the same length that share their beginning and their end and differ in the middle, in every size class
        for size in (thr + 50, 3_000, 140_000, 270_000):
            half = size // 2
            sib = ["s" * half + f"<{j}{rng.randrange(10**6):06d}>" + "s" * half for j in range(2)]
            wrap = rng.choice([lambda x: x, lambda x: [x], lambda x: {"rows": x}])
            a_, b_ = wrap(sib[0]), wrap(sib[1])
            ra, rb = cds.serialize(a_), cds.serialize(b_)
            hooks["near_collision_pairs"] += 1
            distinct.append(["store", dom, backend, thr, "near-collision", size])
            wit = {"size": size, "threshold": thr, "differs_at": half}
            if cds.is_reference(ra) and ra == rb:
                V.append({"sig": "store:different-content-same-reference", "what": f"two {size}-character values that differ only in the middle share one reference", "witness": wit})
            readers = [("serializing instance", cds)] + ([("fresh instance", make_app(backend, td.db(), **conf).client_data_store)] if backend == "sqlite" else [])
            for who, store in readers:
                for rr, want in ((ra, a_), (rb, b_)):
                    try:
                        if not same(want, store.resolve(rr)):
                            V.append({"sig": "store:resolved-other-content", "what": f"{who}: a {size}-character value resolved to its near-collision sibling", "witness": wit})
                    except Exception as e:
                        V.append({"sig": "store:resolve-raised", "what": f"{who}: {type(e).__name__}: {e}"[:200], "witness": wit})
    hooks["mutation_probes"] += 0


def run_argsid(case, V, hooks, distinct):
    from pynenc.call import compute_args_id
    rng = random.Random(case["seed"])
    frag = ["a", "b", "ab", ";", "=", '"', "\\", "\n", "a=b", 'a";"b', "a;b", '"a"="b";', "", " ", "é", "\\\"", "=;", 'x";"y"="z']
    seen = {}
    for _ in range(case["n"]):
        n = rng.randrange(0, 4)
        m1 = {}
        for _k in range(n):
            m1["".join(rng.choice(frag) for _ in range(rng.randrange(1, 3)))] = "".join(rng.choice(frag) for _ in range(rng.randrange(0, 3)))
        kind = rng.choice(["equal", "permuted", "value-changed", "key-changed", "separator-moved", "split-merge"])
        m2 = dict(m1)
        if kind == "permuted":
            items = list(m1.items())
            rng.shuffle(items)
            m2 = dict(items)
        elif kind == "value-changed" and m1:
            k = rng.choice(list(m1))
            m2[k] = m1[k] + rng.choice(frag[:8] or ["x"])
        elif kind == "key-changed" and m1:
            k = rng.choice(list(m1))
            v = m2.pop(k)
            m2[k + rng.choice(["x", ";", "="])] = v
        elif kind == "separator-moved" and m1:
            k = rng.choice(list(m1))
            v = m2.pop(k)
            # move material across the key/value boundary
            if v:
                m2[k + "=" + v[:1]] = v[1:]
            else:
                m2[k[:-1] if len(k) > 1 else k + "="] = k[-1:] + v
        elif kind == "split-merge" and len(m1) >= 2:
            ks = sorted(m1)[:2]
            a, b = ks
            va, vb = m2.pop(a), m2.pop(b)
            # fold the second pair into the first value, for every hypothesis about which parts are quoted
            q = rng.choice(['";"%s"="', ';"%s"=', ';%s=', '";%s="', '\\";\\"%s\\"=\\"'])
            m2[a] = va + (q % b) + vb
        hooks["argsid_pairs"] += 1
        id1, id2 = compute_args_id(m1), compute_args_id(m2)
        distinct.append(["argsid", kind, len(m1)])
        if (m1 == m2) != (id1 == id2):
            what = "equal maps, different ids" if m1 == m2 else "different maps, same id"
            V.append({"sig": f"argsid:{'not-canonical' if m1 == m2 else 'collision'}", "what": f"{what}: {m1!r} vs {m2!r}", "witness": {"m1": m1, "m2": m2, "id1": id1, "id2": id2, "pair": kind}})
        for m, i_ in ((m1, id1), (m2, id2)):
            key = tuple(sorted(m.items()))
            if i_ in seen and seen[i_] != key:
                V.append({"sig": "argsid:collision", "what": f"{dict(seen[i_])!r} and {m!r} share an id", "witness": {"m1": dict(seen[i_]), "m2": m, "id": i_}})
            seen[i_] = key


def run_ident(case, V, hooks, distinct):
    from pynenc.call import Call
    from vtasks import basic
    rng = random.Random(case["seed"])
    dom, backend = case["domain"], case["backend"]
    with TmpDir() as td:
        app = make_app(backend, td.db(), serializer_cls=SERIALIZERS[dom], app_id=f"c15i{case['seed']}")
        t_pos = app.task(basic.sig_pos)
        t_kw = app.task(basic.sig_kwonly)
        t_def = app.task(basic.sig_alldef)
        t_none = app.task(basic.sig_noargs)
        # --- every parameter defaulted: the empty spelling is the same call as every explicit one
        canon0 = Call(t_def, t_def.args(1, "x", c=None)).call_id
        sp0 = {
            "alldef-empty": lambda: [t_def()],
            "alldef-first-positional": lambda: [t_def(1)],
            "alldef-keywords": lambda: [t_def(b="x", a=1)],
            "alldef-all": lambda: [t_def(1, "x", c=None)],
            "alldef-parallelize-empty-tuples": lambda: list(t_def.parallelize([(), ()])),
            "alldef-parallelize-empty-dicts": lambda: list(t_def.parallelize([{}, {"a": 1}])),
            "alldef-args-object": lambda: list(t_def.parallelize([t_def.args()])),
        }
        for name, fn in sp0.items():
            hooks["ident_spellings"] += 1
            distinct.append(["ident", dom, backend, "alldef", name])
            try:
                invs = fn()
            except Exception as e:
                V.append({"sig": f"ident:raised:{name}", "what": f"{name}: {type(e).__name__}: {e}"[:200], "witness": {}})
                continue
            for inv in invs:
                if inv.call.call_id != canon0:
                    V.append({"sig": f"ident:spelling-changes-identity:{name}", "what": f"{name}: call_id {inv.call.call_id.args_id[:12]} != canonical {canon0.args_id[:12]} (kwargs {inv.arguments.kwargs!r})"[:300],
                              "witness": {"spelling": name, "serialized": {k: v[:60] for k, v in inv.call.serialized_arguments.items()}}})
                if inv.arguments.kwargs != {"a": 1, "b": "x", "c": None}:
                    V.append({"sig": f"ident:arguments-not-bound:{name}", "what": f"{name}: the invocation's arguments are {inv.arguments.kwargs!r}, the body receives a=1 b='x' c=None", "witness": {"spelling": name}})
        # --- functions made by one factory share a code object and differ in their defaults (and a function's defaults may be
        #     re-assigned): "defaults omitted" means THIS function's current defaults, whichever sibling was called first
        fam = [("sig_scaled_cm", 2, "cm"), ("sig_scaled_in", 3, "in"), ("sig_scaled_pt", 72, "pt")]
        rng.shuffle(fam)
        for fname, fdef, udef in fam:
            t_f = app.task(getattr(basic, fname))
            canon_f = Call(t_f, t_f.args(5, fdef, unit=udef)).call_id
            spf = {
                "sibling-defaults-omitted": lambda: [t_f(5)],
                "sibling-keyword": lambda: [t_f(a=5)],
                "sibling-parallelize-tuple": lambda: list(t_f.parallelize([(5,), (5, fdef)])),
                "sibling-parallelize-common-args": lambda: list(t_f.parallelize([{"a": 5}], common_args={"unit": udef})),
            }
            for name, fn in spf.items():
                hooks["ident_spellings"] += 1
                hooks["ident_sibling_functions"] += 1
                distinct.append(["ident", dom, backend, "sibling", name])
                try:
                    invs = fn()
                except Exception as e:
                    V.append({"sig": f"ident:raised:{name}", "what": f"{fname} {name}: {type(e).__name__}: {e}"[:200], "witness": {}})
                    continue
                for inv in invs:
                    if inv.call.call_id != canon_f:
                        V.append({"sig": f"ident:spelling-changes-identity:{name}",
                                  "what": f"{fname} {name}: identity differs from the same call with this function's defaults written out (bound {inv.arguments.kwargs!r})"[:300],
                                  "witness": {"function": fname, "order_called": [f[0] for f in fam]}})
                    if inv.arguments.kwargs != {"a": 5, "factor": fdef, "unit": udef}:
                        V.append({"sig": f"ident:arguments-not-bound:{name}",
                                  "what": f"{fname} {name}: bound arguments {inv.arguments.kwargs!r}; the function's own defaults are factor={fdef!r} unit={udef!r}"[:300],
                                  "witness": {"function": fname, "order_called": [f[0] for f in fam]}})
        n1, n2 = t_none(), list(t_none.parallelize([(), ()]))
        if any(i.call.call_id != n1.call.call_id for i in n2):
            V.append({"sig": "ident:spelling-changes-identity:noargs-parallelize", "what": "a task without parameters: direct call and parallelize differ", "witness": {}})
        app.broker.purge()
        for _ in range(case["n"]):
            a = gen_value(rng, "json", depth=2)  # JSON-domain scalars/lists are inside every serializer's domain
            if value_class(a) != "plain":
                continue
            big = "B" * 1500  # externalised common argument
            # --- positional signature
            canon = Call(t_pos, t_pos.args(a, 2, "c")).call_id
            sp = {
                "all-positional": lambda: [t_pos(a, 2, "c")],
                "defaults-omitted": lambda: [t_pos(a)],
                "keywords": lambda: [t_pos(c="c", a=a, b=2)],
                "mixed": lambda: [t_pos(a, c="c")],
                "parallelize-tuple": lambda: list(t_pos.parallelize([(a,)])),
                "parallelize-dict": lambda: list(t_pos.parallelize([{"a": a}])),
                "parallelize-args": lambda: list(t_pos.parallelize([t_pos.args(a)])),
                "parallelize-batch-tuples": lambda: list(t_pos.parallelize([(a,), (a, 2), (a, 2, "c")])),
                "parallelize-batch-dicts": lambda: list(t_pos.parallelize([{"a": a}, {"a": a, "c": "c"}])),
                "parallelize-common-args-single": lambda: list(t_pos.parallelize([{"a": a}], common_args={"c": "c"})),
                "parallelize-common-args-batch": lambda: list(t_pos.parallelize([{"a": a}, {"a": a, "b": 2}], common_args={"c": "c"})),
            }
            for name, fn in sp.items():
                hooks["ident_spellings"] += 1
                distinct.append(["ident", dom, backend, "pos", name])
                try:
                    invs = fn()
                except Exception as e:
                    V.append({"sig": f"ident:raised:{name}", "what": f"{name}: {type(e).__name__}: {e}"[:200], "witness": {"a": repr(a)[:200]}})
                    continue
                for inv in invs:
                    if inv.call.call_id != canon:
                        V.append({"sig": f"ident:spelling-changes-identity:{name}",
                                  "what": f"{name}: call_id {inv.call.call_id.args_id[:12]} != canonical {canon.args_id[:12]} (serialized {dict(list(inv.call.serialized_arguments.items())[:4])})"[:400],
                                  "witness": {"spelling": name, "a": repr(a)[:200], "serialized": {k: v[:60] for k, v in inv.call.serialized_arguments.items()}}})
            # a different argument must give a different identity
            other = Call(t_pos, t_pos.args(a, 3, "c")).call_id
            if other == canon:
                V.append({"sig": "ident:different-args-same-identity", "what": "b=2 and b=3 share a call_id", "witness": {"a": repr(a)[:200]}})
            # --- keyword-only signature with an externalised common argument
            canon2 = Call(t_kw, t_kw.args(a, k=1, m=big)).call_id
            sp2 = {
                "kwonly-default-omitted": lambda: [t_kw(a, m=big)],
                "kwonly-all": lambda: [t_kw(a=a, k=1, m=big)],
                "kwonly-common-args-batch": lambda: list(t_kw.parallelize([{"a": a}, {"a": a, "k": 1}], common_args={"m": big})),
            }
            for name, fn in sp2.items():
                hooks["ident_spellings"] += 1
                distinct.append(["ident", dom, backend, "kwonly", name])
                try:
                    invs = fn()
                except Exception as e:
                    V.append({"sig": f"ident:raised:{name}", "what": f"{name}: {type(e).__name__}: {e}"[:200], "witness": {"a": repr(a)[:200]}})
                    continue
                for inv in invs:
                    if inv.call.call_id != canon2:
                        V.append({"sig": f"ident:spelling-changes-identity:{name}", "what": f"{name}: call_id differs from the canonical spelling",
                                  "witness": {"spelling": name, "a": repr(a)[:200], "serialized": {k: v[:60] for k, v in inv.call.serialized_arguments.items()}}})
            app.broker.purge()


def run_e2e(case, V, hooks, distinct):
    from vtasks import basic
    rng = random.Random(case["seed"])
    dom, backend = case["domain"], case["backend"]
    with TmpDir() as td:
        thr = rng.choice([16, 64, 1024])
        app = make_app(backend, td.db(), serializer_cls=SERIALIZERS[dom], min_size_to_cache=thr, app_id=f"c15e{case['seed']}", cached_status_time=0.0)
        task = app.task(basic.echo_value)
        ctx = runner_ctx("W", "worker-1")
        for _ in range(case["n"]):
            v = gen_value(rng, dom)
            pad = rng.choice([None, "x" * (thr + rng.randrange(-3, 4))])
            if rng.random() < 0.04:  # adversarial: a user string that begins with the store's reference prefix
                v = "__pynenc__client_data__:" + rng.choice(["", "not-a-hash", "0" * 64])
            elif value_class(v) != "plain":
                continue
            original = copy.deepcopy(v)
            del basic.RECEIVED[:]
            hooks["e2e_calls"] += 1
            try:
                inv = task(v, pad=pad)
                set_thread_ctx(app, ctx)
                try:
                    todo = list(app.orchestrator.get_invocations_to_run(1, ctx))
                    for w in todo:
                        w.run(ctx)
                finally:
                    clear_thread_ctx(app)
                got = inv.result
            except Exception as e:
                if value_class(original) != "plain":
                    V.append({"sig": f"e2e:raised:{value_class(original)}", "what": f"{type(e).__name__}: {e}"[:300], "witness": {"value": repr(original)[:300], "backend": backend}})
                    continue
                V.append({"sig": f"e2e:raised:{dom}", "what": f"{type(e).__name__}: {e}"[:300], "witness": {"value": repr(original)[:300], "backend": backend}})
                continue
            ext = any(app.client_data_store.is_reference(s) for s in inv.call.serialized_arguments.values())
            distinct.append(["e2e", dom, backend, "external" if ext else "inline", shape(original)])
            wit = {"value": repr(original)[:300], "backend": backend, "serializer": dom, "threshold": thr}
            if len(basic.RECEIVED) != 1:
                V.append({"sig": "e2e:body-runs", "what": f"body ran {len(basic.RECEIVED)} times", "witness": wit})
                continue
            rec = basic.RECEIVED[0]
            if not same(original, rec["v"]) or not same(pad, rec["pad"]):
                V.append({"sig": f"e2e:worker-kwargs-differ:{dom}", "what": f"worker saw {repr(rec['v'])[:100]} for {repr(original)[:100]}", "witness": wit})
            if not same(original, got):
                V.append({"sig": f"e2e:result-differs:{dom}", "what": f"client read {repr(got)[:100]} for {repr(original)[:100]}", "witness": wit})


def run_e2e_exc(case, V, hooks, distinct):
    """A body that raises: the client must get an exception of the same type and args, inline or externalised."""
    from vtasks import basic
    rng = random.Random(case["seed"] + 1)
    dom, backend = case["domain"], case["backend"]
    with TmpDir() as td:
        thr = rng.choice([64, 1024])
        app = make_app(backend, td.db(), serializer_cls=SERIALIZERS[dom], min_size_to_cache=thr, app_id=f"c15x{case['seed']}", cached_status_time=0.0)
        task = app.task(basic.raise_exc)
        ctx = runner_ctx("W", "worker-1")
        for i in range(max(6, case["n"] // 3)):
            exc = gen_exception(rng, dom, 0, composed=False)
            if rng.random() < 0.5:  # make the serialized exception straddle / exceed the externalisation threshold
                exc = type(exc)("m" * (thr + rng.randrange(-30, 300)), *exc.args[:1])
            basic.EXC_BOX[0] = exc
            hooks["e2e_calls"] += 1
            try:
                inv = task(i)
                set_thread_ctx(app, ctx)
                try:
                    for w in list(app.orchestrator.get_invocations_to_run(1, ctx)):
                        try:
                            w.run(ctx)
                        except Exception:
                            pass  # run() re-raises the body's exception after recording it
                finally:
                    clear_thread_ctx(app)
                try:
                    got = inv.result
                    V.append({"sig": "e2e:failed-invocation-returned-value", "what": f"result returned {got!r:.80} instead of raising", "witness": {"exc": repr(exc)[:200]}})
                    continue
                except Exception as e:
                    got = e
            except Exception as e:
                V.append({"sig": f"e2e:raised:{dom}", "what": f"harness step raised {type(e).__name__}: {e}"[:300], "witness": {"exc": repr(exc)[:200]}})
                continue
            size = len(app.state_backend.serialize_exception(exc))
            distinct.append(["e2e-exc", dom, backend, "external" if size >= thr else "inline", type(exc).__name__])
            if not same(exc, got):
                V.append({"sig": f"e2e:exception-differs:{'external' if size >= thr else 'inline'}",
                          "what": f"body raised {repr(exc)[:80]}, client got {type(got).__name__}: {repr(got)[:80]}",
                          "witness": {"raised": repr(exc)[:300], "got": repr(got)[:300], "backend": backend, "serializer": dom, "threshold": thr}})


def run_case(case):
    hooks = Counter()
    V, distinct = [], []
    {"ser": run_ser, "store": run_store, "argsid": run_argsid, "ident": run_ident, "e2e": run_e2e}[case["kind"]](case, V, hooks, distinct)
    if case["kind"] == "e2e":
        run_e2e_exc(case, V, hooks, distinct)
    seen, out = Counter(), []
    for v in V:
        seen[v["sig"]] += 1
        if seen[v["sig"]] <= 2:
            out.append(v)
    dset = {tuple(map(str, d)) for d in distinct}
    return {"violations": out, "distinct": [list(d) for d in dset], "hooks": dict(hooks), "events": sum(hooks.values()),
            "evaluations": sum(hooks.values()), "sample": case if case["id"] % 11 == 0 else None}
