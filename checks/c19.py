"""C19 - sync development mode and distributed execution give the same outcome.

Three-way differential (sync mode, in-memory stack, SQLite stack - the two distributed ones through the real ThreadRunner in
the runner simulation) plus the arithmetic of the statement (reference interpreter in vtasks.prog.model_run): outcome
(value, or exception type and args) and per-node body-execution counts.
"""
from __future__ import annotations

import random
from collections import Counter

PID = "C19"
LEVEL = "exploration"
RULE = ("generated programs: trees of nodes (pure bodies over JSON-able arguments, a per-attempt script raise retriable / non-retriable / return, children "
        "called singly, as a parallelized group or through direct-task wrappers) over a grid of task options (max_retries 0-3 x retry_for sets); base class: "
        "every child eventually returns so every result is read exactly once; extended class (own signatures): one node anywhere in the tree may fail terminally; "
        "distinct = (program shape, option cells used, outcome kind)")
ASSUMPTIONS = [
    "base program class: every result is read exactly once (children always succeed within their retries); terminal failures only at the root",
    "distributed runs use the thread runner with 2 slots under a fair seeded scheduler in virtual time",
]
REQUIRED_HOOKS = ["programs", "three_way_comparisons", "retry_arithmetic_checked"]


def WORKERS(tier):
    return 14


def TIMEOUT(tier):
    return 900 if tier == "quick" else 5400


def gen_cases(tier, seed):
    thorough = tier == "thorough"
    n = 5000 if thorough else 120
    per = 50 if thorough else 6
    cases = [{"seed": seed * 80021 + i, "n": per, "extended_share": 0.2 if thorough else 0.15} for i in range(n // per)]
    # retry accounting under long preemption windows: single always-retrying nodes x many starving schedules
    for i in range(24 if thorough else 6):
        cases.append({"kind": "retryrace", "seed": seed * 80021 + 7000 + i, "schedules": 120 if thorough else 25})
    return cases


def gen_program(rng, extended):
    from vtasks import prog
    counter = [0]
    names = list(prog.VARIANTS)

    budget = [1]   # at most one node of a program fails terminally: with two, which failure surfaces first is legitimately timing dependent

    def script_for(fn, may_fail_terminally):
        may_fail_terminally = may_fail_terminally and budget[0] > 0
        s_ = _script_for(fn, may_fail_terminally)
        if s_[-1] != "return":
            budget[0] -= 1
        return s_

    def _script_for(fn, may_fail_terminally):
        mr, rf = prog.VARIANTS[fn]
        retri = ["RetryError"] + list(rf) + (["LateRetry"] if prog.LATE_OK[0] else [])
        nonretri = [x for x in ("ValueError", "KeyError", "TypeError") if x not in rf]
        r = rng.random()
        if r < 0.45:
            return ["return"]
        if r < 0.8 or not may_fail_terminally:
            k = rng.randint(0, mr)  # succeeds on attempt k+1 (within the retries)
            return [rng.choice(retri) for _ in range(k)] + ["return"]
        if r < 0.9:
            return [rng.choice(retri)] * (mr + 2)            # keeps raising a retriable exception
        return [rng.choice(retri) for _ in range(rng.randint(0, mr))] + [rng.choice(nonretri)]  # then a non-retriable one

    def mk(depth, may_fail):
        counter[0] += 1
        fn = rng.choice(names)
        spec = {"id": counter[0], "fn": fn, "v": rng.randrange(10), "children": [], "call": "single"}
        spec["script"] = script_for(fn, may_fail)
        if depth < 3 and counter[0] < 7 and rng.random() < 0.6:
            how = rng.choice(["single", "group", "direct", "cgroup", "reread"])
            spec["call"] = how
            if how == "cgroup":
                spec["extra"] = rng.choice([0, 100])
            nk = rng.randint(1, 3)
            gfn = rng.choice(names if how != "direct" else list(prog.DIRECT_VARIANTS.values()))
            for _ in range(nk):
                if counter[0] >= 7:
                    break
                c = mk(depth + 1, extended)
                if how in ("group", "direct", "cgroup"):
                    if c["script"][-1] != "return":
                        budget[0] += 1       # the script is re-drawn for the group's function
                    c["fn"] = gfn
                    c["script"] = script_for(gfn, extended)
                if how == "cgroup":
                    c["bonus"] = rng.choice([0, 0, 10, 20])
                if how == "reread" and not c["children"]:
                    c["ret_none"] = rng.random() < 0.5
                spec["children"].append(c)
            # the same call twice in one group / loop (identical arguments, so identical call identity): two executions everywhere
            last = spec["children"][-1] if spec["children"] else None
            if last is not None and how in ("group", "cgroup", "direct", "single") and not last["children"] and last["script"] == ["return"] and rng.random() < 0.35:
                spec["children"].append(last)
                spec["twin"] = True
        return spec
    return mk(1, True)


def failure_path(spec):
    """ids of the node whose script ends in a terminal failure and of its ancestors (empty when every node eventually returns)"""
    if spec["script"][-1] != "return":
        return {spec["id"]}
    for c in spec["children"]:
        sub = failure_path(c)
        if sub:
            return sub | {spec["id"]}
    return set()


def shape(spec):
    return f"{spec['call'][0]}{len(spec['script'])}(" + ",".join(shape(c) for c in spec["children"]) + ")"


def options_used(spec, acc=None):
    acc = acc if acc is not None else set()
    acc.add(spec["fn"])
    for c in spec["children"]:
        options_used(c, acc)
    return acc


def outcome_of(fn):
    try:
        return ("value", fn())
    except Exception as e:
        return ("exc", type(e).__name__, list(e.args))


def run_sync(program):
    from vlib.apps import make_app
    from vtasks import prog
    prog.COUNTS.clear()
    app = make_app("mem", dev_mode_force_sync_tasks=True, app_id="c19sync")
    tasks = prog.register(app)
    from pynenc import context
    context.set_current_app(app)
    out = outcome_of(lambda: tasks[program["fn"]](program).result)
    return out, dict(prog.COUNTS)


RETRY_LINES = ["pynenc.orchestrator.base_orchestrator:BaseOrchestrator.set_invocation_retry", "pynenc.invocation.dist_invocation:DistributedInvocation.run"]


def run_dist(backend, program, seed, strategy="random", extra_lines=(), hot=()):
    from vlib import runner_sim
    from vtasks import prog
    prog.COUNTS.clear()
    sim = runner_sim.Sim(backend, slots=2, strategy=strategy, seed=seed, max_steps=60000, extra_lines=extra_lines)
    sim.hot_labels = tuple(hot)

    def build(s):
        app = s.make_app()
        tasks = prog.register(app)
        return tasks[program["fn"]](program)
    try:
        out = sim.run(build)
    finally:
        sim.close()
    res = out["result"]
    if "root_final_at" not in res:
        return None, dict(prog.COUNTS), out
    if "exception" in res:
        e = res["exception"]
        return ("exc", type(e).__name__, list(e.args)), dict(prog.COUNTS), out
    return ("value", res.get("value")), dict(prog.COUNTS), out


def run_retryrace(case):
    """a node that keeps raising a retriable exception must execute exactly max_retries + 1 times however its runner threads are descheduled"""
    from vtasks import prog
    rng = random.Random(case["seed"])
    hooks = Counter()
    V, distinct = [], []
    for k in range(case["schedules"]):
        fn = rng.choice([f for f, (mr, rf) in prog.VARIANTS.items() if mr >= 1])
        mr, rf = prog.VARIANTS[fn]
        exc = rng.choice(["RetryError"] + list(rf))
        program = {"id": 1, "fn": fn, "v": 1, "children": [], "call": "single", "script": [exc] * (mr + 3)}
        out, counts, raw = run_dist(rng.choice(["mem", "mem", "sqlite"]), program, case["seed"] * 31 + k, "starve", RETRY_LINES, hot=("set_invocation_retry", "sql:"))
        hooks["programs"] += 1
        hooks["three_way_comparisons"] += 1
        if out is None:
            hooks["starved_runs_redone_fairly"] += 1
            continue
        hooks["retry_arithmetic_checked"] += 1
        if counts.get(1, 0) != mr + 1:
            V.append({"sig": "execution-count-vs-statement:retry-boundary-race", "what": f"a node with max_retries={mr} that always raises {exc} executed {counts.get(1, 0)} times (statement: {mr + 1})",
                      "witness": {"program": program, "schedule_seed": case["seed"] * 31 + k, "outcome": out}})
        distinct.append(["retryrace", fn, exc, raw.get("steps", 0) // 50])
    dset = {tuple(map(str, d)) for d in distinct}
    return {"violations": V[:3], "distinct": [list(d) for d in dset], "hooks": dict(hooks), "events": hooks["three_way_comparisons"], "evaluations": hooks["programs"], "sample": None}


def prime(hooks):
    """Once per process: a failed invocation carrying one of pynenc's own errors is stored and read back through the distributed path BEFORE the
    late exception class of vtasks.prog exists - the order in which a long-lived client meets a lazily imported plugin's error types."""
    from vtasks import prog
    if prog.LATE_OK[0]:
        return
    program = {"id": 1, "fn": "p_r0", "v": 1, "children": [], "call": "single", "script": ["RetryError"] * 3}
    out, _counts, _raw = run_dist("mem", program, 7, "random")
    if out is not None and out[0] == "exc":
        prog.LATE_OK[0] = True
        hooks["primed_before_late_class"] += 1


def run_case(case):
    from vtasks import prog
    hooks0 = Counter()
    prime(hooks0)
    if case.get("kind") == "retryrace":
        return run_retryrace(case)
    rng = random.Random(case["seed"])
    hooks = Counter(hooks0)
    V, distinct = [], []
    inconc = None
    for n in range(case["n"]):
        extended = rng.random() < case["extended_share"]
        program = gen_program(rng, extended)
        hooks["programs"] += 1
        tag = ":extended" if extended else ""
        # the statement's arithmetic
        mcounts = {}
        try:
            model = ("value", prog.model_run(program, mcounts))
        except prog.ModelFail as e:
            model = ("exc", e.etype, list(e.eargs))
        sync_out, sync_counts = run_sync(program)
        results = {"sync": (sync_out, sync_counts)}
        for backend in ("mem", "sqlite") if n % 3 == 0 else ("mem",):
            # alternate a plain fair schedule with one that opens long preemption windows (a descheduled thread between two writes)
            d_out, d_counts, raw = run_dist(backend, program, case["seed"] + n, "random" if n % 2 else "starve")
            if d_out is None and not n % 2:
                # a repeated state while one thread is being starved is not a livelock of the program: decide under the fair schedule
                hooks["starved_runs_redone_fairly"] += 1
                d_out, d_counts, raw = run_dist(backend, program, case["seed"] + n, "random")
            if d_out is None:
                if raw["lasso"] or raw["deadlock"]:
                    V.append({"sig": f"distributed-never-completes:{backend}{tag}", "what": "the program never finishes on the thread runner (state repeats)", "witness": {"program": program, "lasso": raw["lasso"]}})
                else:
                    inconc = f"distributed run hit the step bound ({raw['steps']} steps)"
                continue
            results[backend] = (d_out, d_counts)
        hooks["three_way_comparisons"] += 1
        wit = {"program": program, "model": [model, mcounts], "results": {k: [v[0], v[1]] for k, v in results.items()}}
        # sync vs distributed
        for backend in ("mem", "sqlite"):
            if backend not in results:
                continue
            if results[backend][0] != sync_out:
                V.append({"sig": f"outcome-differs:sync-vs-{backend}{tag}", "what": f"sync {sync_out} vs {backend} {results[backend][0]}"[:300], "witness": wit})
            dc = results[backend][1]
            if dc != sync_counts:
                diff = {k for k in set(dc) | set(sync_counts) if dc.get(k, 0) != sync_counts.get(k, 0)}
                if extended:
                    # the distributed run is observed until the root is final: work outside the failure path (the terminally failing node and its
                    # ancestors) that was routed but had not started, or not finished retrying, by then is unfinished work, not a different count
                    fpath = failure_path(program)
                    unfinished = {k for k in diff if k not in fpath and dc.get(k, 0) < sync_counts.get(k, 0)}
                    hooks["unfinished_siblings_ignored"] += len(unfinished)
                    diff -= unfinished
                    if not diff:
                        continue
                if extended and all(sync_counts.get(k, 0) == 0 for k in diff):
                    # mechanism: sync mode evaluates results lazily, so siblings after a terminally failed child never run inline,
                    # while the distributed siblings were already routed (and may or may not have run before the root failed)
                    V.append({"sig": "sync-is-lazy:siblings-after-a-failed-child-never-run:extended",
                              "what": f"nodes {sorted(diff)} ran on {backend} but never in sync mode (a sibling failed terminally before their results were read)", "witness": wit})
                else:
                    V.append({"sig": f"execution-counts-differ:sync-vs-{backend}{tag}", "what": f"sync {sync_counts} vs {backend} {dc}"[:300], "witness": wit})
        if "mem" in results and "sqlite" in results and results["mem"][0] != results["sqlite"][0]:
            V.append({"sig": f"outcome-differs:mem-vs-sqlite{tag}", "what": f"{results['mem'][0]} vs {results['sqlite'][0]}"[:300], "witness": wit})
        if "mem" in results and "sqlite" in results and not extended and results["mem"][1] != results["sqlite"][1]:
            V.append({"sig": "execution-counts-differ:mem-vs-sqlite", "what": f"{results['mem'][1]} vs {results['sqlite'][1]}"[:300], "witness": wit})
        # statement arithmetic (base class only: the reference interpreter defines it unambiguously there)
        if not extended:
            hooks["retry_arithmetic_checked"] += 1
            for k, (o, c) in results.items():
                if o != model:
                    V.append({"sig": f"outcome-vs-statement:{k}", "what": f"{k}: {o} but the statement's arithmetic gives {model}"[:300], "witness": wit})
                if c != mcounts:
                    V.append({"sig": f"execution-count-vs-statement:{k}", "what": f"{k}: executions {c}, statement {mcounts}"[:300], "witness": wit})
        distinct.append([shape(program), sorted(options_used(program)), model[0] if model[0] == "value" else model[1], extended])
    seen, out = Counter(), []
    for v in V:
        seen[v["sig"]] += 1
        if seen[v["sig"]] <= 2:
            out.append(v)
    dset = {tuple(map(str, d)) for d in distinct}
    return {"violations": out, "distinct": [list(d) for d in dset], "hooks": dict(hooks), "events": hooks["three_way_comparisons"], "evaluations": hooks["programs"],
            "sample": {"case": case} if case["id"] % 5 == 0 else None, "inconclusive": inconc}
