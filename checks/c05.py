"""C05 - a final status always comes with the matching result or exception.

Bodies are echo-like (return the generated value / raise the generated exception) so the client knows the expected
outcome.  A worker actor run()s the invocation while reader actors loop  status -> result  under the controlled
scheduler (yield points between the result write and the status publication and inside the readers); sequential
sweeps cover serializer x backend x threshold configurations; a process mode has reader processes polling while a
worker process finishes invocations.
"""
from __future__ import annotations

import copy
import json
import os
import random
import time
from collections import Counter

from vlib.apps import TmpDir, make_app, runner_ctx, set_thread_ctx, clear_thread_ctx, flush_history
from vlib.gen.values import gen_value, gen_exception, same, shape

PID = "C05"
LEVEL = "exploration"
RULE = ("configurations {Json, JsonPickle, Pickle} x {mem, sqlite} x thresholds {16, 64, 1024} x generated values / exceptions (builtin, "
        "user-defined, pynenc's own error types with arguments; sizes straddling the externalisation threshold); sequential sweeps, "
        "controlled reader/worker schedules (pct + bounded dfs), multi-process readers; distinct = (mode, serializer, backend, outcome kind, "
        "value shape or exception type, inline/external, schedule signature)")
ASSUMPTIONS = [
    "a reader 'observes' a status through orchestrator.get_invocation_status and then reads through state_backend.get_result / get_exception and DistributedInvocation.get_final_result",
    "structural equality: exact types, NaN == NaN, exceptions by type and args",
]
REQUIRED_HOOKS = ["final_observations", "results_compared", "exceptions_compared", "nonfinal_reads_checked", "schedules", "result_before_final_asserted", "rereads_after_later_invocations"]
SERIALIZERS = {"json": "JsonSerializer", "jsonpickle": "JsonPickleSerializer", "pickle": "PickleSerializer"}


def WORKERS(tier):
    return 14


def TIMEOUT(tier):
    return 900 if tier == "quick" else 5400


def gen_cases(tier, seed):
    thorough = tier == "thorough"
    cases = []
    i = 0
    for dom in SERIALIZERS:
        for backend in ("mem", "sqlite"):
            for thr in (16, 64, 1024):
                cases.append({"kind": "seq", "domain": dom, "backend": backend, "threshold": thr, "seed": seed * 101 + i, "n": 1200 if thorough else 60})
                i += 1
    for dom in SERIALIZERS:
        for backend in ("mem", "sqlite"):
            cases.append({"kind": "sched", "domain": dom, "backend": backend, "strategy": "pct", "count": 600 if thorough else 40, "readers": 2,
                          "seed": seed * 211 + i, "budget": 200 if thorough else 25})
            i += 1
    for backend in ("mem", "sqlite"):
        cases.append({"kind": "sched", "domain": "jsonpickle", "backend": backend, "strategy": "dfs", "p": 2, "readers": 1, "seed": seed, "budget": 300 if thorough else 30})
    for j in range(3 if thorough else 1):
        cases.append({"kind": "proc", "seconds": 60 if thorough else 8, "readers": 3, "seed": seed * 3 + j})
    return cases


SIBLING_SIZES = (60, 5_000, 140_000, 300_000)
_sibling_serial = [0]


def gen_sibling(rng, thr):
    """results of one family: same length, same beginning and end, a different middle (what distinct invocations of one task return when they
    process almost the same data); every size class from just externalised to hundreds of kilobytes"""
    size = max(thr + 40, rng.choice(SIBLING_SIZES))
    _sibling_serial[0] += 1
    half = size // 2
    s_ = "r" * half + f"<{_sibling_serial[0]:08d}>" + "r" * half
    return rng.choice([s_, [s_], {"rows": s_}])


def gen_outcome(rng, dom, thr):
    """-> ('value', v) | ('exc', e)"""
    from pynenc.exceptions import RetryError, PynencError, InvocationError
    r = rng.random()
    if r < 0.10:
        return "value", gen_sibling(rng, thr)
    if r < 0.55:
        v = gen_value(rng, dom)
        if rng.random() < 0.35:
            v = rng.choice(["r" * max(0, thr + rng.randrange(-6, 8)), ["r" * (thr + rng.randrange(-6, 8))]])
        return "value", v
    if r < 0.85:
        e = gen_exception(rng, dom, 0, composed=False)
        if rng.random() < 0.4:
            e = type(e)("m" * (thr + rng.randrange(-20, 200)), *e.args[:1])
        return "exc", e
    # pynenc's own error types with arguments
    k = rng.random()
    if k < 0.5:
        return "exc", RetryError("boom", rng.randrange(5))
    if k < 0.8:
        return "exc", PynencError("plain pynenc error", rng.choice(["x", 1]))
    return "exc", InvocationError("some-invocation-id", "message " + "z" * rng.randrange(0, 40))


def is_plain(v):
    from checks.c15 import value_class
    return value_class(v) == "plain"


class Cell:
    """One app with an outcome-scripted task."""

    def __init__(self, backend, db, dom, thr, tag):
        from vtasks import basic
        self.app = make_app(backend, db, app_id=f"c05{tag}", serializer_cls=SERIALIZERS[dom], min_size_to_cache=thr, cached_status_time=0.0)
        self.task = self.app.task(basic.scripted_outcome)
        self.ctx = runner_ctx("W", "worker-1")


def read_and_judge(app, inv, expected, V, hooks, who, wit_extra):
    """One reader step at the client boundary: observe the status, then read; judge against the expected outcome."""
    from pynenc.invocation.status import InvocationStatus
    from pynenc.exceptions import InvocationError
    kind, exp = expected
    st = app.orchestrator.get_invocation_status(inv.invocation_id)
    wit = {"observed_status": st.name, "expected_kind": kind, "expected": repr(exp)[:200], "reader": who, **wit_extra}
    if st == InvocationStatus.SUCCESS:
        hooks["final_observations"] += 1
        try:
            got = app.state_backend.get_result(inv.invocation_id)
        except Exception as e:
            V.append({"sig": "success-without-readable-result", "what": f"observed SUCCESS but get_result raised {type(e).__name__}: {e}"[:300], "witness": wit})
            return st
        hooks["results_compared"] += 1
        if kind != "value" or not same(exp, got):
            V.append({"sig": f"success-with-wrong-result:{wit_extra.get('serializer')}", "what": f"SUCCESS read {repr(got)[:100]}, body returned {repr(exp)[:100]}", "witness": wit})
        try:
            got2 = inv.get_final_result()
            if not same(exp, got2):
                V.append({"sig": "final-result-differs", "what": f"get_final_result gave {repr(got2)[:100]}", "witness": wit})
        except Exception as e:
            V.append({"sig": "final-result-raised-on-success", "what": f"{type(e).__name__}: {e}"[:300], "witness": wit})
    elif st == InvocationStatus.FAILED:
        hooks["final_observations"] += 1
        try:
            got = app.state_backend.get_exception(inv.invocation_id)
        except Exception as e:
            V.append({"sig": "failed-without-readable-exception", "what": f"observed FAILED but get_exception raised {type(e).__name__}: {e}"[:300], "witness": wit})
            return st
        hooks["exceptions_compared"] += 1
        if kind != "exc" or type(got) is not type(exp) or not same(list(exp.args), list(got.args)):
            fam = "pynenc-error" if type(exp).__module__.startswith("pynenc") else "exception"
            what = "type" if type(got) is not type(exp) else "args"
            V.append({"sig": f"failed-with-wrong-exception:{fam}:{what}", "what": f"body raised {exp!r:.100}, reader got {got!r:.100}", "witness": {**wit, "got": repr(got)[:200]}})
        try:
            inv.get_final_result()
            V.append({"sig": "final-result-returned-on-failed", "what": "get_final_result returned a value for a FAILED invocation", "witness": wit})
        except Exception as e:
            if type(e) is not type(exp):
                V.append({"sig": "final-result-raised-other-type", "what": f"raised {type(e).__name__} for {type(exp).__name__}", "witness": wit})
    else:
        hooks["nonfinal_reads_checked"] += 1
        # asking for the result of a non-final invocation never yields a value
        inv._cached_status = None
        try:
            got = inv.get_final_result()
            st2 = app.orchestrator.get_invocation_status(inv.invocation_id)
            if not st2.is_final():
                V.append({"sig": "value-from-non-final", "what": f"get_final_result returned {repr(got)[:80]} while the status is {st2.name}", "witness": wit})
        except InvocationError:
            pass
        except Exception as e:
            st2 = app.orchestrator.get_invocation_status(inv.invocation_id)
            if not st2.is_final():
                V.append({"sig": "non-final-read-raised-other", "what": f"{type(e).__name__}: {e}"[:200], "witness": wit})
    return st


def run_seq(case, V, hooks, distinct):
    from vtasks import basic
    rng = random.Random(case["seed"])
    dom, backend, thr = case["domain"], case["backend"], case["threshold"]
    with TmpDir() as td:
        cell = Cell(backend, td.db(), dom, thr, f"q{case['seed']}")
        app = cell.app
        finished = []     # (invocation, expected, witness extras) of the invocations that ended fault-free: read again later

        def reread(tag):
            # bounded: the most recent ones plus the most recent externalised (large) ones
            large = [f for f in finished if f[1][0] == "value" and len(repr(f[1][1])) > 1000][-40:]
            recent = finished[-40:]
            for inv_, exp_, we_ in large + [f for f in recent if f not in large]:
                hooks["rereads_after_later_invocations"] += 1
                inv_._cached_status = None
                read_and_judge(app, inv_, exp_, V, hooks, tag, {**we_, "reread": True})
        for n in range(case["n"]):
            if n and n % 25 == 0:
                reread("client-reread-after-later-invocations")
            kind, val = gen_outcome(rng, dom, thr)
            if kind == "value" and not is_plain(val):
                continue
            expected = (kind, copy.deepcopy(val) if kind == "value" else val)
            basic.OUTCOME_BOX[0] = (kind, val)
            inv = cell.task(n)
            wit_extra = {"serializer": dom, "backend": backend, "threshold": thr}
            read_and_judge(app, inv, expected, V, hooks, "client-before", wit_extra)
            if rng.random() < 0.12:
                # superseded execution: runner A starts the invocation, is killed and re-routed; runner B executes it to its real outcome; A's
                # old execution then finishes the other way round and tries to store ITS outcome (the write lands, the status change is refused).
                # The final status and what every reader gets must still be B's outcome.
                from pynenc.invocation.status import InvocationStatus
                from pynenc.exceptions import InvocationStatusError
                ctx_a = runner_ctx("ThreadRunner", "superseded-runner")
                orch = app.orchestrator
                set_thread_ctx(app, ctx_a)
                try:
                    got = list(orch.get_invocations_to_run(1, ctx_a))
                    if got and got[0].invocation_id == inv.invocation_id:
                        orch.set_invocation_status(inv.invocation_id, InvocationStatus.RUNNING, ctx_a)
                        orch.set_invocation_status(inv.invocation_id, InvocationStatus.KILLED, ctx_a)
                        orch.reroute_invocations({inv.invocation_id}, ctx_a)
                finally:
                    clear_thread_ctx(app)
                set_thread_ctx(app, cell.ctx)
                try:
                    for w in list(orch.get_invocations_to_run(1, cell.ctx)):
                        try:
                            w.run(cell.ctx)
                        except Exception:
                            pass
                finally:
                    clear_thread_ctx(app)
                set_thread_ctx(app, ctx_a)
                try:
                    late = app.state_backend.get_invocation(inv.invocation_id)
                    try:
                        if kind == "exc":
                            orch.set_invocation_result(late, "late value of the superseded execution", ctx_a)
                        else:
                            orch.set_invocation_exception(late, KeyError("late failure of the superseded execution"), ctx_a)
                    except InvocationStatusError:
                        pass
                finally:
                    clear_thread_ctx(app)
                hooks["superseded_executions"] += 1
                wit_extra["superseded_execution_finished_late"] = True
                inv._cached_status = None
                st = read_and_judge(app, inv, expected, V, hooks, "client-after-late-finish-of-superseded-execution", wit_extra)
                distinct.append(["seq-superseded", dom, backend, kind, st.name])
                continue
            # fault injection: now and then the write of the result / exception fails (transient storage error, interrupt of the worker, encoding
            # error); whatever happens next, a final status may only be published together with the matching stored outcome
            fault = None
            sb = app.state_backend
            real_set = (sb.set_result, sb.set_exception)
            if rng.random() < 0.15:
                import sqlite3
                fault = rng.choice(["operational-error", "keyboard-interrupt", "type-error"])
                exc_obj = {"operational-error": sqlite3.OperationalError("database is locked"), "keyboard-interrupt": KeyboardInterrupt(), "type-error": TypeError("Object is not JSON serializable")}[fault]
                fired = [0]

                def failing(*a, _exc=exc_obj, **k):
                    fired[0] += 1
                    raise _exc
                sb.set_result = sb.set_exception = failing
                wit_extra["injected_fault_in_outcome_write"] = fault
                hooks["outcome_write_faults_injected"] += 1
            set_thread_ctx(app, cell.ctx)
            try:
                for w in list(app.orchestrator.get_invocations_to_run(1, cell.ctx)):
                    read_and_judge(app, inv, expected, V, hooks, "client-pending", wit_extra)
                    try:
                        w.run(cell.ctx)
                    except BaseException:  # noqa
                        pass
            finally:
                sb.set_result, sb.set_exception = real_set
                clear_thread_ctx(app)
            st = read_and_judge(app, inv, expected, V, hooks, "client-after-faulted-write" if fault else "client-after", wit_extra)
            if fault:
                distinct.append(["seq-fault", dom, backend, fault, kind, st.name])
                continue
            if not st.is_final():
                V.append({"sig": "not-final-after-run", "what": f"status {st.name} after run()", "witness": wit_extra})
            ext = "?"
            try:
                raw = app.state_backend._get_result(inv.invocation_id) if kind == "value" else app.state_backend._get_exception(inv.invocation_id)
                ext = "external" if "__pynenc__client_data__" in raw[:200] else "inline"
            except Exception:
                pass
            distinct.append(["seq", dom, backend, thr, kind, shape(val) if kind == "value" else type(val).__name__, ext])
            if st.is_final():
                finished.append((inv, expected, dict(wit_extra)))
        reread("client-reread-at-the-end")
        flush_history(app)
    hooks["schedules"] += 0
    hooks["rereads_after_later_invocations"] += 0
    hooks["result_before_final_asserted"] += 0


def run_sched(case, V, hooks, distinct):
    from vlib import sched as S, shims as SH, linemon, probes
    from vtasks import basic
    dom, backend = case["domain"], case["backend"]
    rng = random.Random(case["seed"])
    td = TmpDir()
    counter = {"n": 0}
    totals = Counter()

    def scenario(sc):
        counter["n"] += 1
        thr = rng.choice([16, 64, 1024])
        db = td.db(f"s{counter['n'] % 30}.sqlite")
        for ext in ("", "-wal", "-shm"):
            try:
                os.remove(db + ext)
            except FileNotFoundError:
                pass

        def stamp():
            sc.yield_point("probe:boundary")
            return sc.stamp()
        log = probes.Log(stamp=stamp)
        pr = probes.install(log)
        cell = Cell(backend, db, dom, thr, f"s{backend}")
        app = cell.app
        while True:
            kind, val = gen_outcome(rng, dom, thr)
            if kind != "value" or is_plain(val):
                break
        expected = (kind, copy.deepcopy(val) if kind == "value" else val)
        retrying = counter["n"] % 3 == 0
        if retrying:
            # first attempt fails with a retriable error, the second one gives the final outcome; two workers
            basic.ATTEMPTS.clear()
            basic.OUTCOME_BOX[0] = ("attempts", [("exc", ConnectionError("transient", counter["n"])), (kind, val)])
            rtask = app.task(basic.scripted_outcome, max_retries=1, retry_for=(ConnectionError,))
            inv = rtask(counter["n"])
        else:
            basic.OUTCOME_BOX[0] = (kind, val)
            inv = cell.task(counter["n"])
        flush_history(app)
        localV, localH = [], Counter()
        wit_extra = {"serializer": dom, "backend": backend, "threshold": thr}
        # in-hook assertion: when a final status is requested, the result / exception is already stored
        real_sis = app.orchestrator.set_invocation_status

        def guarded(invocation_id, status, runner_ctx):
            if status.name in ("SUCCESS", "FAILED"):
                localH["result_before_final_asserted"] += 1
                try:
                    (app.state_backend._get_result if status.name == "SUCCESS" else app.state_backend._get_exception)(invocation_id)
                except Exception as e:
                    localV.append({"sig": f"final-status-published-before-{'result' if status.name == 'SUCCESS' else 'exception'}-stored",
                                   "what": f"{status.name} requested while nothing is stored yet ({type(e).__name__})", "witness": wit_extra})
            return real_sis(invocation_id, status, runner_ctx)
        app.orchestrator.set_invocation_status = guarded

        def worker():
            set_thread_ctx(app, cell.ctx)
            try:
                for w in list(app.orchestrator.get_invocations_to_run(1, cell.ctx)):
                    try:
                        w.run(cell.ctx)
                    except Exception:
                        pass
            finally:
                clear_thread_ctx(app)
        sc.spawn("worker", worker)
        if retrying:
            ctx2 = runner_ctx("W", "worker-2")

            def worker2():
                set_thread_ctx(app, ctx2)
                try:
                    for _ in range(3):
                        for w in list(app.orchestrator.get_invocations_to_run(1, ctx2)):
                            try:
                                w.run(ctx2)
                            except Exception:
                                pass
                        sc.yield_point("probe:worker2-loop")
                finally:
                    clear_thread_ctx(app)
            sc.spawn("worker2", worker2)
        for r in range(case["readers"]):
            def reader(r=r):
                rinv = app.state_backend.get_invocation(inv.invocation_id)  # a client's own handle
                for _ in range(6):
                    st = read_and_judge(app, rinv, expected, localV, localH, f"reader{r}", wit_extra)
                    sc.yield_point("probe:reader-loop")
                    if st.is_final():
                        break
            sc.spawn(f"reader{r}", reader)

        def fin():
            pr.uninstall()
            if retrying:
                # drain: whoever is left finishes the retry
                set_thread_ctx(app, cell.ctx)
                try:
                    for _ in range(3):
                        for w in list(app.orchestrator.get_invocations_to_run(1, cell.ctx)):
                            try:
                                w.run(cell.ctx)
                            except Exception:
                                pass
                finally:
                    clear_thread_ctx(app)
                totals["retry_scenarios"] += 1
            st = read_and_judge(app, inv, expected, localV, localH, "client-after", wit_extra)
            totals.update(localH)
            totals["kind_" + kind] += 1
            return localV[:6] or None
        return fin

    shims = SH.Shims() if backend == "mem" else SH.Shims(threading_modules=["pynenc.state_backend.base_state_backend"], time_modules=["pynenc.util.sqlite_utils"])
    lines = (linemon.MEM_ORCH[:3] + linemon.MEM_BROKER + ["pynenc.orchestrator.base_orchestrator:BaseOrchestrator.set_invocation_result",
             "pynenc.orchestrator.base_orchestrator:BaseOrchestrator.set_invocation_exception", "pynenc.orchestrator.base_orchestrator:BaseOrchestrator.set_invocation_retry", "pynenc.invocation.dist_invocation:DistributedInvocation.get_final_result",
             "pynenc.state_backend.base_state_backend:BaseStateBackend.set_result", "pynenc.state_backend.base_state_backend:BaseStateBackend.get_result"]) if backend == "mem" else None
    try:
        res = S.explore(scenario, strategy=case["strategy"], max_preemptions=case.get("p", 2), n=case.get("count", 30), seed=case["seed"],
                        sql=(backend == "sqlite"), lines=lines, shims=shims, max_steps=6000, time_budget=case.get("budget"))
    finally:
        td.close()
    hooks.update({k: v for k, v in totals.items() if not k.startswith("kind_")})
    hooks["schedules"] += res["schedules"]
    for s_ in res["signatures_nontrivial"]:
        distinct.append(["sched", dom, backend, case["readers"], s_])
    for r in res["results"]:
        base = {"backend": backend, "choices": r["choices"], "trace_tail": r["trace"][-30:]}
        if r.get("deadlock"):
            V.append({"sig": f"deadlock:{backend}", "what": "every live actor is blocked", "witness": base})
        if r.get("error"):
            V.append({"sig": f"harness-error:{backend}", "what": r["error"][:400], "witness": base})
        for v in (r.get("out") or []):
            v = dict(v)
            v["witness"] = {**v["witness"], **base}
            V.append(v)
    return res.get("inconclusive")


def _proc_reader(idx, db, app_id, ids_path, logpath, stop_at, dom, thr):
    from vtasks import basic
    app = make_app("sqlite", db, app_id=app_id, serializer_cls=SERIALIZERS[dom], min_size_to_cache=thr, cached_status_time=0.0)
    app.task(basic.scripted_outcome)
    with open(ids_path) as f:
        ids = json.load(f)   # [[inv_id, kind, expected_repr_key]]
    out = []
    rng = random.Random(idx)
    from pynenc.invocation.status import InvocationStatus
    while time.monotonic() < stop_at:
        inv_id, kind, n = rng.choice(ids)
        st = app.orchestrator.get_invocation_status(inv_id)
        if st == InvocationStatus.SUCCESS:
            try:
                got = app.state_backend.get_result(inv_id)
                out.append([inv_id, "SUCCESS", "ok", repr(got)[:200]])
            except Exception as e:
                out.append([inv_id, "SUCCESS", "raised", f"{type(e).__name__}: {e}"[:200]])
        elif st == InvocationStatus.FAILED:
            try:
                got = app.state_backend.get_exception(inv_id)
                out.append([inv_id, "FAILED", "ok", repr(got)[:200]])
            except Exception as e:
                out.append([inv_id, "FAILED", "raised", f"{type(e).__name__}: {e}"[:200]])
        else:
            out.append([inv_id, st.name, "nonfinal", ""])
    with open(logpath, "w") as f:
        json.dump(out, f)
    os._exit(0)


def _proc_worker(db, app_id, script_path, stop_at, dom, thr):
    from vtasks import basic
    from vlib import sqlhook
    sqlhook.install("delay", seed=7, p=0.3, max_ms=2.0)
    app = make_app("sqlite", db, app_id=app_id, serializer_cls=SERIALIZERS[dom], min_size_to_cache=thr, cached_status_time=0.0)
    app.task(basic.scripted_outcome)
    with open(script_path) as f:
        script = json.load(f)  # n -> [kind, payload]
    basic.OUTCOME_SCRIPT.clear()
    basic.OUTCOME_SCRIPT.update({int(k): v for k, v in script.items()})
    ctx = runner_ctx("W", "proc-worker")
    set_thread_ctx(app, ctx)
    while time.monotonic() < stop_at:
        invs = list(app.orchestrator.get_invocations_to_run(2, ctx))
        if not invs:
            break
        for w in invs:
            try:
                w.run(ctx)
            except Exception:
                pass
    os._exit(0)


def run_proc(case, V, hooks, distinct):
    from vtasks import basic
    rng = random.Random(case["seed"])
    dom, thr = "json", 64
    rounds = max(1, case["seconds"] // 4)
    with TmpDir() as td:
        for rnd in range(rounds):
            db = td.db(f"p{rnd}.sqlite")
            app_id = f"c05p{os.getpid()}r{rnd}"
            app = make_app("sqlite", db, app_id=app_id, serializer_cls=SERIALIZERS[dom], min_size_to_cache=thr, cached_status_time=0.0)
            task = app.task(basic.scripted_outcome)
            script, ids, expected = {}, [], {}
            for n in range(120):
                if rng.random() < 0.6:
                    payload = "v" * rng.randrange(0, 200) + str(n)
                    script[n] = ["value", payload]
                else:
                    payload = "e" * rng.randrange(0, 200) + str(n)
                    script[n] = ["exc", payload]
                inv = task(n)
                ids.append([inv.invocation_id, script[n][0], n])
                expected[inv.invocation_id] = script[n]
            flush_history(app)
            sp, ip = os.path.join(td.path, f"script{rnd}.json"), os.path.join(td.path, f"ids{rnd}.json")
            json.dump(script, open(sp, "w"))
            json.dump(ids, open(ip, "w"))
            stop_at = time.monotonic() + 3.0
            kids = []
            pid = os.fork()
            if pid == 0:
                try:
                    _proc_worker(db, app_id, sp, stop_at, dom, thr)
                finally:
                    os._exit(3)
            kids.append((pid, None))
            for r in range(case["readers"]):
                lp = os.path.join(td.path, f"r{rnd}_{r}.json")
                pid = os.fork()
                if pid == 0:
                    try:
                        _proc_reader(r, db, app_id, ip, lp, stop_at, dom, thr)
                    finally:
                        os._exit(3)
                kids.append((pid, lp))
            nfinal = 0
            for pid, lp in kids:
                os.waitpid(pid, 0)
                if lp and os.path.exists(lp):
                    for inv_id, st, outcome, got in json.load(open(lp)):
                        if st in ("SUCCESS", "FAILED"):
                            nfinal += 1
                            hooks["final_observations"] += 1
                            kind, payload = expected[inv_id]
                            wit = {"status": st, "outcome": outcome, "got": got, "expected": [kind, payload[:60]]}
                            if outcome == "raised":
                                V.append({"sig": f"{st.lower()}-without-readable-{'result' if st == 'SUCCESS' else 'exception'}:processes", "what": f"observed {st} but the read raised {got}", "witness": wit})
                            elif st == "SUCCESS":
                                hooks["results_compared"] += 1
                                if kind != "value" or got != repr(payload)[:200]:
                                    V.append({"sig": "success-with-wrong-result:processes", "what": f"read {got[:60]}", "witness": wit})
                            else:
                                hooks["exceptions_compared"] += 1
                                if kind != "exc" or payload[:40] not in got:
                                    V.append({"sig": "failed-with-wrong-exception:processes", "what": f"read {got[:60]}", "witness": wit})
                        else:
                            hooks["nonfinal_reads_checked"] += 1
            if nfinal:
                distinct.append(["proc", case["seed"], rnd, min(nfinal, 50) // 10])
    hooks["schedules"] += 0
    hooks["result_before_final_asserted"] += 0


def run_case(case):
    hooks = Counter()
    V, distinct = [], []
    inconc = None
    if case["kind"] == "seq":
        run_seq(case, V, hooks, distinct)
    elif case["kind"] == "sched":
        inconc = run_sched(case, V, hooks, distinct)
    else:
        run_proc(case, V, hooks, distinct)
    seen, out = Counter(), []
    for v in V:
        seen[v["sig"]] += 1
        if seen[v["sig"]] <= 2:
            out.append(v)
    dset = {tuple(map(str, d)) for d in distinct}
    return {"violations": out, "distinct": [list(d) for d in dset], "hooks": dict(hooks), "events": sum(hooks.values()),
            "evaluations": hooks["final_observations"] + hooks["nonfinal_reads_checked"], "sample": case if case["id"] % 6 == 0 else None, "inconclusive": inconc}
