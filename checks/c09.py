"""C09 - waiting on sub-tasks is tracked exactly and can never deadlock a runner.

A (tracking) : random sequences of wait declarations, status changes, completions and queries over a small id universe on both
               backends against a reference wait-graph; invariant hook on a checked subclass of MemBlockingControl, evaluated under its own lock (_ready equals its definition)
B (progress) : generated call trees (single .result, parallelize(...).results, mixed) executed by the real ThreadRunner with 1 or 2
               slots under fair round-robin / random schedules in virtual time; bounded progress in scheduler steps with lasso detection
"""
from __future__ import annotations

import hashlib
import random
from collections import Counter

from vlib.apps import TmpDir, make_app, runner_ctx, set_thread_ctx, clear_thread_ctx, flush_history
from vlib.models.lifecycle import Lifecycle, load_doc_edges, AVAILABLE, FINALS

PID = "C09"
LEVEL = "exploration"
RULE = ("A: sequences of 30-80 operations over 6-8 invocations (declare-wait / claim / start / finish / retry / reroute / query n in {0,1,2,all}) on "
        "both backends vs a reference wait-graph, distinct = sequence hash, non-trivial = some query's expected set was non-empty and a strict "
        "subset of the waited ids; B: call trees up to depth 4 / fan-out 3 x slots {1,2} x strategies {round-robin, random-fair}, distinct = "
        "(tree shape, slots, strategy, schedule signature)")
ASSUMPTIONS = [
    "wait declarations onto an already-final invocation are not generated (the statement does not fix them; C16 compares the backends there)",
    "an edge disappears when the waited invocation finishes; the waiter finishing does not remove its declarations (both backends behave so)",
    "B: progress is decided in scheduler steps and virtual time; a run that exceeds the step bound while its state is still changing is inconclusive",
]
REQUIRED_HOOKS = ["queries_checked", "wait_declarations", "invariant_evaluations", "trees_run"]


def WORKERS(tier):
    return 14


def TIMEOUT(tier):
    return 900 if tier == "quick" else 5400


def gen_cases(tier, seed):
    thorough = tier == "thorough"
    cases = []
    n = 8000 if thorough else 500
    per = 100 if thorough else 25
    for i in range(n // per):
        cases.append({"kind": "A", "seed": seed * 60013 + i, "n": per})
    ntrees = 600 if thorough else 60
    per_t = 10 if thorough else 6
    for i in range(ntrees // per_t):
        for backend in (("mem", "sqlite") if thorough else ("mem",)):
            cases.append({"kind": "B", "backend": backend, "seed": seed * 70001 + i, "n": per_t, "seeds_per_tree": 4 if thorough else 1})
    if not thorough:
        cases.append({"kind": "B", "backend": "sqlite", "seed": seed * 70001 + 999, "n": 4, "seeds_per_tree": 1})
    return cases


# ------------------------------------------------------------------------------------------------ part A


class InvariantBroken(Exception):
    pass


_inv_evals = [0]


def make_checked_class():
    """Subclass of the in-memory blocking control whose mutators re-check, under the object's own lock, that the maintained
    ready set equals its definition (the "invariant at a hook" shape; the repository class itself is left untouched)."""
    from pynenc.orchestrator import mem_orchestrator as mo

    class CheckedMemBlockingControl(mo.MemBlockingControl):
        def _verif_check(self):
            with self._lock:
                _inv_evals[0] += 1
                expected = {x for x in self.waited_by if not self.waiting_for.get(x)}
                if set(self._ready) != expected:
                    raise InvariantBroken(f"_ready={sorted(self._ready)} expected={sorted(expected)}")

        def waiting_for_results(self, caller_invocation_id, result_invocation_ids):
            r = super().waiting_for_results(caller_invocation_id, result_invocation_ids)
            self._verif_check()
            return r

        def release_waiters(self, waited_invocation_id):
            r = super().release_waiters(waited_invocation_id)
            self._verif_check()
            return r
    return CheckedMemBlockingControl


def install_invariant():
    from pynenc.orchestrator import mem_orchestrator as mo
    orig = mo.MemBlockingControl
    mo.MemBlockingControl = make_checked_class()
    return orig


def run_A(case, V, hooks, distinct):
    from pynenc.invocation.status import InvocationStatus
    from pynenc.orchestrator import mem_orchestrator as mo
    from vtasks import basic
    rng = random.Random(case["seed"])
    edges_doc, _, _ = load_doc_edges()
    model = Lifecycle(edges_doc)
    orig = install_invariant()
    _inv_evals[0] = 0
    try:
        with TmpDir() as td:
            for sn in range(case["n"]):
                apps = {"mem": make_app("mem", app_id=f"c09m{case['seed']}_{sn}", cached_status_time=0.0),
                        "sqlite": make_app("sqlite", td.db(f"a{sn % 6}.sqlite"), app_id=f"c09s{case['seed']}_{sn}", cached_status_time=0.0)}
                tasks = {k: a.task(basic.echo) for k, a in apps.items()}
                nids = rng.randint(6, 8)
                ids = {k: [tasks[k](i).invocation_id for i in range(nids)] for k in apps}
                ctx = runner_ctx("R", "runner-a")
                status = ["REGISTERED"] * nids
                edges = set()   # (waiter, waited)
                trail = []
                nontrivial = False

                def expected_set():
                    waited = {b for a, b in edges}
                    waiters = {a for a, b in edges}
                    return {x for x in waited if status[x] not in FINALS and x not in waiters and status[x] in AVAILABLE}, waited

                def setst(i, st):
                    for k, a in apps.items():
                        a.orchestrator.set_invocation_status(ids[k][i], InvocationStatus[st], ctx)
                    status[i] = st
                    if st in FINALS:
                        for e in [e for e in edges if e[1] == i]:
                            edges.discard(e)

                for _ in range(rng.randint(30, 80)):
                    r = rng.random()
                    try:
                        if r < 0.3:
                            w = rng.randrange(nids)
                            targets = [x for x in rng.sample(range(nids), rng.randint(1, 3)) if x != w and status[x] not in FINALS]
                            if not targets or status[w] in FINALS:
                                continue
                            trail.append(["wait", w, targets])
                            hooks["wait_declarations"] += 1
                            for k, a in apps.items():
                                a.orchestrator.waiting_for_results(ids[k][w], [ids[k][t] for t in targets])
                            for t in targets:
                                edges.add((w, t))
                        elif r < 0.36:
                            # a finish attempt that the orchestrator must reject (illegal from the current status, or by a runner that does not own it):
                            # the invocation has NOT finished, so nothing it is awaited for may be released
                            i = rng.randrange(nids)
                            if status[i] in FINALS:
                                continue
                            fin = rng.choice(["SUCCESS", "FAILED"])
                            from pynenc.exceptions import InvocationStatusError
                            from vlib.apps import runner_ctx as _rc
                            if not model.has_edge(status[i], fin):
                                who = ctx
                            elif status[i] in ("RUNNING", "PENDING"):
                                who = _rc("ThreadRunner", "not-the-owner")
                            else:
                                continue
                            trail.append(["rejected-finish", i, fin])
                            hooks["rejected_finishes"] += 1
                            for k, a in apps.items():
                                try:
                                    a.orchestrator.set_invocation_status(ids[k][i], InvocationStatus[fin], who)
                                    V.append({"sig": f"illegal-finish-accepted:{k}", "what": f"{k}: {status[i]} -> {fin} accepted", "witness": {"trail": trail[-15:]}})
                                except InvocationStatusError:
                                    pass
                        elif r < 0.6:
                            i = rng.randrange(nids)
                            legal = [s for s in ("PENDING", "RUNNING", "SUCCESS", "FAILED", "RETRY", "REROUTED", "KILLED") if model.has_edge(status[i], s)]
                            if not legal:
                                continue
                            st = rng.choice(legal)
                            trail.append(["status", i, st])
                            setst(i, st)
                        else:
                            exp, waited = expected_set()
                            n = rng.choice([0, 1, 2, nids + 3])
                            trail.append(["query", n])
                            hooks["queries_checked"] += 1
                            if exp and exp != {x for x in waited}:
                                nontrivial = True
                            for k, a in apps.items():
                                got = [ids[k].index(x) for x in a.orchestrator.get_blocking_invocations(n)]
                                wit = {"backend": k, "limit": n, "got": got, "expected_set": sorted(exp), "edges": sorted(edges), "statuses": list(status), "trail": trail[-15:]}
                                if len(set(got)) != len(got):
                                    V.append({"sig": f"blocking-report:duplicate:{k}", "what": f"{k}: {got}", "witness": wit})
                                if set(got) - exp:
                                    bad = sorted(set(got) - exp)
                                    why = ["final" if status[x] in FINALS else "itself-waiting" if any(a_ == x for a_, _b in edges) else "not-waited" if x not in waited else f"status-{status[x]}" for x in bad]
                                    V.append({"sig": f"blocking-report:includes-{why[0]}:{k}", "what": f"{k}: reported {bad} which should not be reported ({why})", "witness": wit})
                                if len(got) > max(n, 0):
                                    V.append({"sig": f"blocking-report:limit-{'zero' if n == 0 else 'n'}-ignored:{k}", "what": f"{k}: asked for {n}, got {len(got)}", "witness": wit})
                                elif len(set(got) & exp) < min(n, len(exp)):
                                    V.append({"sig": f"blocking-report:missing:{k}", "what": f"{k}: asked for {n}, expected {min(n, len(exp))} of {sorted(exp)}, got {got}", "witness": wit})
                    except InvariantBroken as e:
                        V.append({"sig": "mem-ready-set-inconsistent", "what": f"MemBlockingControl._ready differs from its definition: {e}"[:400], "witness": {"trail": trail[-15:]}})
                        break
                if nontrivial:
                    distinct.append(["A", hashlib.sha1(repr(trail).encode()).hexdigest()[:12]])
                for a in apps.values():
                    flush_history(a)
    finally:
        if orig is not None:
            mo.MemBlockingControl = orig
    hooks["invariant_evaluations"] += _inv_evals[0]
    hooks["trees_run"] += 0


# ------------------------------------------------------------------------------------------------ part B


def run_B(case, V, hooks, distinct):
    from vlib import runner_sim
    rng = random.Random(case["seed"])
    for tn in range(case["n"]):
        tree = runner_sim.gen_tree(rng, max_depth=4, max_fan=3)
        for slots in (1, 2):
            for strat in ("rr", "random"):
                for sk in range(case["seeds_per_tree"]):
                    res = runner_sim.run_tree(case["backend"], tree, slots=slots, strategy=strat, seed=case["seed"] * 31 + tn * 7 + sk)
                    hooks["trees_run"] += 1
                    key = [case["backend"], runner_sim.tree_shape(tree), slots, strat, res["sig"]]
                    if res["verdict"] == "ok":
                        distinct.append(key)
                    elif res["verdict"] == "violation":
                        V.append({"sig": res["sig_v"], "what": res["what"], "witness": {"tree": tree, "slots": slots, "strategy": strat, "backend": case["backend"], **res.get("witness", {})}})
                    else:
                        hooks["inconclusive_runs"] += 1
                        V.append({"sig": "__inconclusive__", "what": res["what"], "witness": {}})
    for k in ("queries_checked", "wait_declarations", "invariant_evaluations"):
        hooks[k] += 0


def run_case(case):
    hooks = Counter()
    V, distinct = [], []
    if case["kind"] == "A":
        run_A(case, V, hooks, distinct)
    else:
        run_B(case, V, hooks, distinct)
    inconc = None
    real = []
    for v in V:
        if v["sig"] == "__inconclusive__":
            inconc = v["what"]
        else:
            real.append(v)
    seen, out = Counter(), []
    for v in real:
        seen[v["sig"]] += 1
        if seen[v["sig"]] <= 2:
            out.append(v)
    return {"violations": out, "distinct": distinct, "hooks": dict(hooks), "events": sum(hooks.values()), "evaluations": case["n"],
            "sample": case if case["id"] % 7 == 0 else None, "inconclusive": inconc}
