"""C14 - process-based runners keep their worker pool at capacity when workers die.

As the property prescribes, the operating-system process objects are replaced by controllable
stand-ins: the names Process / Manager (and cpu_count) in the three runner modules are rebound;
the runners' real _on_start / _report_child_runner_heartbeats / runner_loop_iteration code is
driven by the harness against a real (in-memory) orchestrator and broker.  Fault enumeration:
every sequence (bounded length) of death patterns (any subset of the tracked pool) between loop
iterations, for every pool configuration.
"""
from __future__ import annotations

import itertools
import threading
from collections import Counter

from vlib.apps import make_app

PID = "C14"
LEVEL = "fault_enumeration"
RULE = ("all sequences (length <= L) of death patterns - any subset of the tracked pool incl. all and none - between loop iterations x pool "
        "configurations (persistent-process: num_processes; multi-thread: min/max processes x enforce on/off x queue empty/loaded; "
        "process runner: slots x queue); after every death step two loop iterations are run and the live tracked pool is compared with "
        "the configured capacity; distinct = (runner, configuration, death sequence)")
ASSUMPTIONS = [
    "OS processes are stand-ins (start / is_alive / pid / terminate / kill / join; Manager dict/Event/shutdown) as the property's quantifier prescribes",
    "capacity: PPR num_processes; MultiThread max_processes with enforce on, max(live, min(queue length, max)) with enforce off; ProcessRunner: "
    "live + newly claimed = min(slots, live + queued)",
]
REQUIRED_HOOKS = ["loop_iterations", "capacity_checks", "heartbeat_reports_checked", "deaths_injected"]


def EXHAUSTIVE(tier):
    return True


def WORKERS(tier):
    return 12


def gen_cases(tier, seed):
    thorough = tier == "thorough"
    pmax, L = (4, 4) if thorough else (3, 2)
    cases = []
    for n in range(1, pmax + 1):
        cases.append({"runner": "ppr", "num": n, "L": L if n <= 3 else L - 1})   # 16^4 sequences for one configuration would dominate the wall time
    for mn, mx in [(a, b) for b in range(1, pmax + 1) for a in range(1, b + 1)]:
        for enforce in (True, False):
            for queue in (0, 1, mx + 2):
                cases.append({"runner": "mtr", "min": mn, "max": mx, "enforce": enforce, "queue": queue, "L": L if mx <= 3 else L - 1})
    for slots in range(1, pmax + 1):
        for queue in (0, 2, slots + 3):
            cases.append({"runner": "proc", "slots": slots, "queue": queue, "L": L if slots <= 3 else L - 1})
    return cases


# ---------------------------------------------------------------- stand-ins


class FakeProcess:
    created = []
    _pid = itertools.count(1000)

    def __init__(self, target=None, args=(), kwargs=None, daemon=None, **_):
        self.target, self.args, self.kwargs, self.daemon = target, args, kwargs or {}, daemon
        self._alive = False
        self.pid = None
        self.exitcode = None
        FakeProcess.created.append(self)

    def start(self):
        self._alive = True
        self.pid = next(FakeProcess._pid)

    def is_alive(self):
        return self._alive

    def die(self, code=-9):
        self._alive = False
        self.exitcode = code

    def terminate(self):
        self.die(-15)

    def kill(self):
        self.die(-9)

    def join(self, timeout=None):
        return None


class FakeManager:
    def dict(self, *a, **k):
        return dict(*a, **k)

    def Event(self):
        return threading.Event()

    def shutdown(self):
        return None


class Patched:
    def __init__(self, cpu=3):
        import pynenc.runner.persistent_process_runner as ppr, pynenc.runner.multi_thread_runner as mtr, pynenc.runner.process_runner as pr
        self.mods = (ppr, mtr, pr)
        self.undo = []
        for m in self.mods:
            for name, val in (("Process", FakeProcess), ("Manager", FakeManager), ("cpu_count", lambda: cpu), ("warn_missing_main_guard", lambda: None)):
                if hasattr(m, name):
                    self.undo.append((m, name, getattr(m, name)))
                    setattr(m, name, val)
        # never touch the real multiprocessing start method of the harness process
        self.undo.append((ppr.PersistentProcessRunner, "_ensure_spawn_start_method", ppr.PersistentProcessRunner.__dict__["_ensure_spawn_start_method"]))
        ppr.PersistentProcessRunner._ensure_spawn_start_method = staticmethod(lambda: None)
        FakeProcess.created = []

    def close(self):
        for m, name, val in reversed(self.undo):
            setattr(m, name, val)


class Harness:
    def __init__(self, case):
        import pynenc.runner.persistent_process_runner as ppr, pynenc.runner.multi_thread_runner as mtr, pynenc.runner.process_runner as pr
        from vtasks import basic
        self.case = case
        self.kind = case["runner"]
        conf = dict(runner_loop_sleep_time_sec=0.0, cached_status_time=0.0)
        if self.kind == "ppr":
            conf.update(num_processes=case["num"], runner_cls="PersistentProcessRunner")
            cls = ppr.PersistentProcessRunner
        elif self.kind == "mtr":
            conf.update(min_processes=case["min"], max_processes=case["max"], enforce_max_processes=case["enforce"], runner_cls="MultiThreadRunner")
            cls = mtr.MultiThreadRunner
        else:
            conf.update(runner_cls="ProcessRunner", min_parallel_slots=1)
            cls = pr.ProcessRunner
        self.patch = Patched(cpu=case.get("slots", 3))
        self.app = make_app("mem", **conf)
        self.task = self.app.task(basic.echo)
        self.runner = cls(self.app)
        self.reports = []  # (ids reported, alive ids at that moment, tracked ids)
        orch = self.app.orchestrator
        real = orch.register_runner_heartbeats

        def spy(runner_ids, can_run_atomic_service=False):
            self.reports.append((list(runner_ids), self.alive_ids(), self.tracked_ids()))
            return real(runner_ids, can_run_atomic_service)
        orch.register_runner_heartbeats = spy
        self.runner.running = True
        self.runner._on_start()
        for i in range(case.get("queue", 0)):
            self.task(i)

    def procs(self):
        out = {}
        for rid, v in self.runner.child_runner_ids.items():
            out[rid] = v.process if hasattr(v, "process") else v
        return out

    def tracked_ids(self):
        return list(self.procs())

    def alive_ids(self):
        return [rid for rid, p in self.procs().items() if p.is_alive()]

    def iterate(self, hooks, V, wit):
        n0 = len(self.reports)
        self.runner._report_child_runner_heartbeats()
        alive_now = set(self.alive_ids())
        hooks["heartbeat_reports_checked"] += 1
        reported = set()
        for ids, alive, tracked in self.reports[n0:]:
            reported |= set(ids)
            dead_reported = [i for i in ids if i not in alive]
            if dead_reported:
                V.append({"sig": f"heartbeat-for-dead-worker:{self.kind}", "what": f"heartbeat reported on behalf of {len(dead_reported)} worker(s) that are not alive", "witness": wit()})
        missing = alive_now - reported
        if missing:
            V.append({"sig": f"alive-worker-not-reported:{self.kind}", "what": f"{len(missing)} alive tracked worker(s) were not reported", "witness": wit()})
        self.runner.runner_loop_iteration()
        hooks["loop_iterations"] += 1

    def close(self):
        self.patch.close()


def expected_capacity(h, live_before, queued_before):
    c = h.case
    if h.kind == "ppr":
        return max(1, c["num"])
    if h.kind == "mtr":
        mx = c["max"]
        if c["enforce"]:
            return mx
        return max(live_before, min(queued_before, mx)) if queued_before > live_before else live_before
    return min(max(1, c["slots"]), live_before + queued_before)


def run_sequence(case, seq, V, hooks):
    h = Harness(case)
    try:
        trail = []

        def wit():
            return {"case": case, "death_sequence": trail, "tracked": len(h.tracked_ids()), "alive": len(h.alive_ids()),
                    "queue": h.app.broker.count_invocations()}
        # warm-up: two iterations without faults, the pool must be at capacity
        for mask in [0] + list(seq):
            ids = h.tracked_ids()
            killed = [rid for k, rid in enumerate(ids) if mask >> k & 1]
            for rid in killed:
                h.procs()[rid].die()
                hooks["deaths_injected"] += 1
            trail.append(len(killed) if mask else 0)
            for it in range(2):
                live_before = len(h.alive_ids())
                queued_before = h.app.broker.count_invocations()
                h.iterate(hooks, V, wit)
                exp = expected_capacity(h, live_before, queued_before)
                live = len(h.alive_ids())
                tracked = len(h.tracked_ids())
                hooks["capacity_checks"] += 1
                if tracked != live:
                    V.append({"sig": f"dead-worker-still-tracked:{h.kind}", "what": f"{tracked - live} dead worker(s) still tracked after loop iteration {it + 1} following the deaths", "witness": wit()})
                if live != exp:
                    V.append({"sig": f"pool-not-at-capacity:{h.kind}:{'enforce' if case.get('enforce') else 'plain'}",
                              "what": f"{h.kind}: {live} live workers after iteration {it + 1}, capacity {exp} (live before {live_before}, queued {queued_before})", "witness": wit()})
            # new work keeps being picked up (process runner / non-enforcing multi-thread depend on the queue)
            if h.kind in ("proc",) or (h.kind == "mtr" and not case["enforce"]):
                if mask and h.app.broker.count_invocations() == 0:
                    for i in range(2):
                        h.task(100 + i)
    finally:
        h.close()


def run_case(case):
    hooks = Counter()
    V, distinct = [], []
    if case["runner"] == "ppr":
        pool = case["num"]
    elif case["runner"] == "mtr":
        pool = case["max"]
    else:
        pool = case["slots"]
    masks = list(range(1 << pool))
    n = 0
    for L in range(1, case["L"] + 1):
        for seq in itertools.product(masks, repeat=L):
            if L < case["L"] and seq[-1] == 0:
                continue
            run_sequence(case, seq, V, hooks)
            distinct.append([case["runner"], {k: v for k, v in case.items() if k not in ("id", "L")}, list(seq)])
            n += 1
    seen, out = Counter(), []
    for v in V:
        seen[v["sig"]] += 1
        if seen[v["sig"]] <= 2:
            out.append(v)
    return {"violations": out, "distinct": distinct, "hooks": dict(hooks), "events": sum(hooks.values()), "evaluations": n,
            "sample": {"case": case, "sequences": n} if case["id"] % 7 == 0 else None}
