"""C17 - applications with different ids are fully isolated, for any id string.

Two or three apps share one database file (sqlite) or one process (mem).  Around every operation on
one app the full read-out (vlib.readout) of every *other* app is taken; equality is the oracle.
Static contracts on the storage naming scheme are evaluated for every generated id pair.
"""
from __future__ import annotations

import random
import re
import sqlite3
from collections import Counter

from vlib.apps import TmpDir, make_app, runner_ctx, set_thread_ctx, clear_thread_ctx
from vlib import readout

PID = "C17"
LEVEL = "exploration"
RULE = ("pairs/triples of application ids from an adversarial generator (punctuation / case variants, prefixes of one another, ids equal "
        "to another id's storage prefix plus a suffix incl. LIKE-wildcard and case variants of it, quotes, semicolons, % and _, unicode, "
        "whitespace-only, leading digits, very long) x interleaved operation sequences incl. the purge of every component; one evaluation "
        "= one operation on one app with a before/after read-out of every other app; distinct = (id-relation class, operation kind, backend)")
ASSUMPTIONS = [
    "the bystander read-out is the public getters plus every row of the tables its own components name (sqlite) or the component dictionaries (mem)",
    "process-local caches of an app (LRU of deserialised values, runner-context cache) are part of that app, not of the bystander",
]
REQUIRED_HOOKS = ["ops_with_bystander_readout", "naming_contract", "purges"]


def WORKERS(tier):
    return 12


def _prefix(app_id):
    from pynenc.util.sqlite_utils import sanitize_table_prefix
    return sanitize_table_prefix(app_id)


def gen_pairs(rng, n):
    """[(relation class, [ids...])]"""
    base_words = ["app", "orders", "my-app", "a", "svc.eu", "x y", "App", "data_1"]
    out = []
    comps = ["broker", "orchestrator", "state_backend", "trigger", "client"]
    for _ in range(n):
        b = rng.choice(base_words)
        r = rng.random()
        if r < 0.12:
            v = rng.choice([b.replace("-", "_"), b.replace("-", "."), b.replace(".", "_"), b.replace(" ", "_"), b + "-", b.replace("_", "-")])
            cls, ids = "punct-variant", [b, v if v != b else b + "_"]
        elif r < 0.2:
            cls, ids = "case-variant", [b, b.swapcase()]
        elif r < 0.3:
            cls, ids = "prefix-of", [b, b + rng.choice(["1", "_", "__", "_x", "-x", "__broker"])]
        elif r < 0.55:
            comp = rng.choice(comps)
            p = f"{_prefix(b)}__{comp}"
            suffix = rng.choice(["", "_x", "_message_queue", "x", "__", "_data", "_invocations"])
            style = rng.random()
            if style < 0.4:
                cls, other = "looks-like-prefix", p + suffix
            elif style < 0.6:
                cls, other = "looks-like-prefix-case", (p + suffix).swapcase()
            elif style < 0.8:
                # replace one underscore by another character: '_' is a LIKE wildcard
                idxs = [i for i, c in enumerate(p) if c == "_"]
                i = rng.choice(idxs)
                cls, other = "looks-like-prefix-wildcard", p[:i] + rng.choice("xZ9") + p[i + 1:] + suffix
            else:
                cls, other = "looks-like-app-prefix", _prefix(b) + rng.choice(["", "_", "__", "__broker"])
            ids = [b, other]
        elif r < 0.7:
            m = rng.choice(["a'b", 'a"b', "a;b", "a%b", "a_b", "%", "_", "a'; DROP TABLE x; --", "a)b", "a--b", "a/*b*/", "[a]", "`a`", "a\\b", "a\x00b"])
            cls, ids = "sql-meta", [b, m]
        elif r < 0.8:
            u = rng.choice(["café", "日本", "\U0001f600app", "аpp", "a​b", "Ä"])
            cls, ids = "unicode", [u, rng.choice(["cafe", "app", "ä", "a_b", "caf_"])]
        elif r < 0.88:
            cls, ids = "blank-or-digit", [rng.choice([" ", "  ", "\t", "0", "123", "1app", "_", "__", "-"]), rng.choice(["_", "__", "_default", "0_", "_1app", "_123", "  "])]
        else:
            cls, ids = "long", ["L" * rng.choice([200, 900]) + "a", "L" * rng.choice([200, 900]) + "b"]
        if ids[0] == ids[1]:
            ids[1] = ids[1] + "2"
        if rng.random() < 0.25:
            ids.append(rng.choice([_prefix(ids[0]), ids[1] + "_", "third"]))
            if ids[2] in ids[:2]:
                ids[2] += "3"
        out.append((cls, ids))
    return out


def gen_cases(tier, seed):
    rng = random.Random(seed)
    thorough = tier == "thorough"
    n = 2000 if thorough else 72
    pairs = gen_pairs(rng, n)
    # a few fixed, hand-picked relations are always included
    fixed = [("looks-like-prefix", ["app", f"{_prefix('app')}__broker_x"]), ("looks-like-prefix", ["app", f"{_prefix('app')}__state_backend"]),
             ("punct-variant", ["my-app", "my_app"]), ("case-variant", ["app", "APP"]), ("sql-meta", ["app", "a'b"]), ("blank-or-digit", ["", "_default"])]
    cases = []
    per = 6
    allp = fixed + pairs
    for i in range(0, len(allp), per):
        for backend in ("sqlite", "mem"):
            cases.append({"backend": backend, "pairs": allp[i:i + per], "seed": rng.randrange(1 << 30), "nops": 20})
    return cases


OPS = ["call", "big_call", "claim_run", "status", "heartbeat", "event", "call", "claim_run",
       "purge_broker", "purge_orchestrator", "purge_state_backend", "purge_client_data_store", "purge_trigger", "purge_app"]


class AppBox:
    def __init__(self, app, task, label):
        self.app, self.task, self.label = app, task, label
        self.inv_ids, self.ref_keys = [], []
        self.ctx = runner_ctx("R", f"runner-{label}")

        self.cached = None

    def readout(self, fresh=False):
        if fresh or self.cached is None:
            self.cached = readout.full_readout(self.app, self.inv_ids[-12:], self.ref_keys[-6:], [self.ctx.runner_id])
        return self.cached


def do_op(box, op, rng):
    from pynenc.invocation.status import InvocationStatus
    app = box.app
    if op == "call":
        inv = box.task(rng.randrange(5))
        box.inv_ids.append(inv.invocation_id)
    elif op == "big_call":
        payload = "p" * rng.choice([1100, 3000]) + str(rng.randrange(3))
        inv = box.task(payload)
        box.inv_ids.append(inv.invocation_id)
        for v in inv.call.serialized_arguments.values():
            if app.client_data_store.is_reference(v):
                box.ref_keys.append(v)
    elif op == "claim_run":
        set_thread_ctx(app, box.ctx)
        try:
            for inv in list(app.orchestrator.get_invocations_to_run(2, box.ctx)):
                inv.run(box.ctx)
        finally:
            clear_thread_ctx(app)
    elif op == "status":
        if box.inv_ids:
            try:
                app.orchestrator.set_invocation_status(rng.choice(box.inv_ids[-6:]), InvocationStatus.PENDING, box.ctx)
            except Exception as e:
                from pynenc.exceptions import InvocationStatusError
                if not isinstance(e, (InvocationStatusError, KeyError)):
                    raise
    elif op == "heartbeat":
        app.orchestrator.register_runner_heartbeats([box.ctx.runner_id], can_run_atomic_service=bool(rng.getrandbits(1)))
    elif op == "event":
        app.trigger.emit_event("c17_event", {"n": rng.randrange(3)})
    elif op.startswith("purge_"):
        what = op[len("purge_"):]
        if what == "app":
            app.purge()
        else:
            getattr(app, what).purge()
    else:
        raise ValueError(op)


def run_group(backend, cls, ids, rng, nops, V, hooks, distinct):
    from vtasks import basic
    with TmpDir() as td:
        boxes = []
        try:
            for k, app_id in enumerate(ids):
                app = make_app(backend, td.db(), app_id=app_id)
                task = app.task(basic.echo)
                # touch every component so its tables exist
                app.broker, app.orchestrator, app.state_backend, app.trigger, app.client_data_store  # noqa
                boxes.append(AppBox(app, task, str(k)))
        except sqlite3.Error as e:
            V.append({"sig": "sql-error:create", "what": f"creating an app with id {app_id!r} raised {type(e).__name__}: {e}", "witness": {"ids": ids}})
            return
        # naming contract
        if backend == "sqlite":
            hooks["naming_contract"] += 1
            tables = {}
            for b in boxes:
                names = [n for ns in readout.component_tables(b.app).values() for n in ns]
                tables[b.label] = set(names)
                for n in names:
                    if not re.fullmatch(r"[A-Za-z0-9_]+", n):
                        V.append({"sig": "unsafe-table-name", "what": f"table name {n!r} for app id {b.app.app_id!r}", "witness": {"ids": ids}})
            labels = list(tables)
            for i in range(len(labels)):
                for j in range(i + 1, len(labels)):
                    # SQLite table names are case-insensitive
                    a = {n.lower() for n in tables[labels[i]]}
                    bset = {n.lower() for n in tables[labels[j]]}
                    if a & bset:
                        V.append({"sig": "shared-table", "what": f"ids {ids[i]!r} and {ids[j]!r} share tables {sorted(a & bset)[:3]}", "witness": {"ids": ids}})
            pf = [_prefix(i) for i in ids]
            if len({p.lower() for p in pf}) < len(pf):
                V.append({"sig": "prefix-collision", "what": f"ids {ids} have storage prefixes {pf}", "witness": {"ids": ids}})
        else:
            hooks["naming_contract"] += 0
        # populate a little, then random interleaved ops
        trail = []
        for b in boxes:
            for op in ("call", "big_call", "heartbeat", "claim_run", "call"):
                do_op(b, op, rng)
            b.inv_seen = list(b.inv_ids)
        for step in range(nops):
            k = rng.randrange(len(boxes))
            box = boxes[k]
            op = rng.choice(OPS)
            others = [b for b in boxes if b is not box]
            before = [o.readout() for o in others]
            box.cached = None
            try:
                do_op(box, op, rng)
            except sqlite3.Error as e:
                V.append({"sig": f"sql-error:{op}", "what": f"{op} on app {box.app.app_id!r} raised {type(e).__name__}: {e}", "witness": {"ids": ids, "trail": trail[-10:]}})
            except Exception as e:
                # an app that purged one of its own components may be inconsistent with itself; that is not an isolation matter
                hooks["own_op_errors"] += 1
            after = [o.readout(fresh=True) for o in others]
            trail.append([k, op])
            hooks["ops_with_bystander_readout"] += 1
            if op.startswith("purge"):
                hooks["purges"] += 1
            distinct.append([cls, op, backend])
            for o, bf, af in zip(others, before, after):
                d = readout.diff(bf, af)
                if d:
                    comp = "purge" if op.startswith("purge") else "op"
                    V.append({"sig": f"bystander-changed:{comp}:{op}:{backend}",
                              "what": f"{op} on app {box.app.app_id!r} changed app {o.app.app_id!r} at {d[:4]}",
                              "witness": {"ids": ids, "relation": cls, "actor": box.app.app_id, "bystander": o.app.app_id, "op": op, "changed_paths": d[:12], "trail": trail[-10:]}})
            if op.startswith("purge"):
                # repopulate so later purges have something to lose
                for b in boxes:
                    b.cached = None
                    try:
                        do_op(b, "call", rng)
                        do_op(b, "big_call", rng)
                    except sqlite3.Error as e:
                        V.append({"sig": "sql-error:repopulate", "what": f"{type(e).__name__}: {e}", "witness": {"ids": ids}})
                    except Exception:
                        hooks["own_op_errors"] += 1


def run_case(case):
    rng = random.Random(case["seed"])
    hooks = Counter()
    V, distinct = [], []
    n = 0
    for cls, ids in case["pairs"]:
        try:
            run_group(case["backend"], cls, ids, rng, case["nops"], V, hooks, distinct)
        except Exception as e:
            import traceback
            V.append({"sig": f"error:{type(e).__name__}", "what": f"ids {ids!r} ({cls}): {type(e).__name__}: {e}",
                      "witness": {"ids": ids, "trace": traceback.format_exc()[-1500:]}})
        n += 1
    seen, out = Counter(), []
    for v in V:
        seen[v["sig"]] += 1
        if seen[v["sig"]] <= 2:
            out.append(v)
    dset = {tuple(d) for d in distinct}
    return {"violations": out, "distinct": [list(d) for d in dset], "hooks": dict(hooks), "events": hooks["ops_with_bystander_readout"],
            "evaluations": hooks["ops_with_bystander_readout"], "sample": {"backend": case["backend"], "first_pairs": case["pairs"][:2]} if case["id"] % 9 == 0 else None}
