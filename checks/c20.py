"""C20 - monitoring pages only observe: a GET never changes the system.

Routes are enumerated from the application's own route table (pynmon.app.app.openapi() after
setup_routes(), cross-checked by walking app.routes); every GET route is requested through
starlette's TestClient with generated path/query parameters against system states produced by
operation histories; the oracle is equality of the full read-out (vlib.readout) taken before and
after the request.  Whether the page renders or fails is irrelevant.
"""
from __future__ import annotations

import random
from collections import Counter

from vlib.apps import TmpDir, make_app, runner_ctx, set_thread_ctx, clear_thread_ctx, flush_history
from vlib import readout

PID = "C20"
LEVEL = "exploration"
RULE = ("every GET route of the monitor's route table x system states (empty, short queue, queue longer than the page limit, mixed "
        "statuses with results/exceptions/retries, queued ids whose stored invocation is gone, workflows + parent/child + heartbeats) x "
        "parameter fillings (existing / missing / malformed ids, small / large / zero limits); one evaluation = one request with a "
        "before/after read-out; distinct = (route, state class, parameter class, backend)")
ASSUMPTIONS = [
    "the oracle covers the monitored application's backends; /switch-app only changes which application the monitor looks at",
    "read-out = public getters + every row of every table of the app (sqlite, queue as the id sequence in delivery order) or the component dictionaries (mem)",
]
REQUIRED_HOOKS = ["concurrent_bursts", "get_requests", "routes_seen", "states_built"]

STATES = ["empty", "short_queue", "long_queue", "mixed", "missing_stored", "workflows", "dup_queue", "long_args"]


def WORKERS(tier):
    return 12


def gen_cases(tier, seed):
    rng = random.Random(seed)
    cases = []
    reps = 34 if tier == "thorough" else 1
    for rep in range(reps):
        for backend in ("mem", "sqlite"):
            for st in STATES:
                cases.append({"backend": backend, "state": st, "seed": rng.randrange(1 << 30), "variant": rep})
    return cases


_routes_ready = False


def get_routes():
    """[(path, [param dicts])] for GET routes from the application's own route table."""
    global _routes_ready
    import pynmon.app as pa
    if not _routes_ready:
        pa.setup_routes()
        _routes_ready = True
    spec = pa.app.openapi()
    out = []
    for path, item in sorted(spec["paths"].items()):
        if "get" in item:
            out.append((path, item["get"].get("parameters", [])))
    # cross-check by walking the router objects (this FastAPI version nests included routers)
    walked = set()

    def walk(routes):
        for r in routes:
            methods = getattr(r, "methods", None) or set()
            p = getattr(r, "path", None)
            if p and "GET" in methods:
                walked.add(p)
            inner = getattr(r, "original_router", None)
            if inner is not None:
                walk(inner.routes)
            if hasattr(r, "routes") and not hasattr(r, "methods"):
                try:
                    walk(r.routes)
                except Exception:
                    pass
    walk(pa.app.routes)
    return out, walked


def build_state(app, state, rng):
    """Drive the public API to a system state; returns ids for parameter filling."""
    from vtasks import basic
    from pynenc.invocation.status import InvocationStatus
    echo = app.task(basic.echo)
    add = app.task(basic.add)
    fail = app.task(basic.fail_with)
    retry = app.task(basic.retry_once, max_retries=2)
    spawn = app.task(basic.spawn_children)
    ctx = runner_ctx("ThreadRunner", "runner-c20")
    ctx2 = runner_ctx("ThreadRunner", "runner-c20-b", parent=runner_ctx("PersistentProcessRunner", "parent-c20"))
    info = {"inv": [], "tasks": [echo.task_id.key, add.task_id.key], "calls": [], "runners": [ctx.runner_id, ctx2.runner_id], "workflows": []}

    def step(n, c=ctx):
        set_thread_ctx(app, c)
        try:
            for inv in list(app.orchestrator.get_invocations_to_run(n, c)):
                try:
                    inv.run(c)
                except Exception:
                    pass
        finally:
            clear_thread_ctx(app)

    if state == "empty":
        return info
    if state == "short_queue":
        for i in range(3):
            info["inv"].append(echo(i).invocation_id)
    elif state == "long_queue":
        for i in range(25 + rng.randrange(5)):
            info["inv"].append(echo(i).invocation_id)
        list(add.parallelize([(i, 1) for i in range(4)]))
    elif state == "mixed":
        for i in range(4):
            info["inv"].append(echo(i).invocation_id)
        info["inv"].append(fail("x" * rng.choice([3, 1500])).invocation_id)
        info["inv"].append(retry(1).invocation_id)
        app.orchestrator.register_runner_heartbeats([ctx.runner_id], can_run_atomic_service=True)
        step(4)
        for i in range(5):
            info["inv"].append(add(i, y=i).invocation_id)
        step(2, ctx2)
        # one invocation left PENDING, one RUNNING by hand
        set_thread_ctx(app, ctx)
        try:
            invs = list(app.orchestrator.get_invocations_to_run(2, ctx))
            if invs:
                app.orchestrator.set_invocation_status(invs[0].invocation_id, InvocationStatus.RUNNING, ctx)
        finally:
            clear_thread_ctx(app)
    elif state == "missing_stored":
        for i in range(5):
            info["inv"].append(echo(i).invocation_id)
        step(1)
        flush_history(app)
        app.state_backend.purge()   # queued ids remain, their stored invocations are gone
        if rng.random() < 0.5:
            info["inv"].append(echo(99).invocation_id)
    elif state == "dup_queue":
        # the same id queued twice: claimed through the blocking branch (its message stays queued), timed out, re-routed by pending recovery
        for i in range(3):
            info["inv"].append(echo(i).invocation_id)
        dup = info["inv"][rng.randrange(3)]
        app.orchestrator.set_invocation_status(dup, InvocationStatus.PENDING, ctx)
        app.orchestrator.set_invocation_status(dup, InvocationStatus.PENDING_RECOVERY, ctx2)
        app.orchestrator.reroute_invocations({dup}, ctx2)
        info["inv"].append(echo(7).invocation_id)
    elif state == "long_args":
        # argument values of every size class: short, long but stored inline (below the client data store threshold), external
        for n in (3, 520, 700, 1000, 1500, 5000):
            info["inv"].append(echo("y" * n).invocation_id)
        info["inv"].append(add(1, y=2).invocation_id)
        step(2)
    elif state == "workflows":
        info["inv"].append(spawn(3).invocation_id)
        step(1)
        step(2, ctx2)
        info["inv"].append(spawn(2).invocation_id)
        app.orchestrator.register_runner_heartbeats([ctx.runner_id, ctx2.runner_id])
        app.state_backend.store_runner_context(ctx2)
        app.trigger.emit_event("c20", {"a": 1})
        for i in range(3):
            info["inv"].append(echo(i).invocation_id)
    flush_history(app)
    for i in info["inv"][:8]:
        try:
            inv = app.state_backend.get_invocation(i)
            info["calls"].append(inv.call.call_id.key)
            info["workflows"].append(inv.workflow.workflow_type.key)
        except Exception:
            pass
    return info


def fill_params(path, params, info, rng):
    """Yield (param class, url) for one route."""
    import urllib.parse
    pools = {
        "invocation_id": info["inv"], "call_id_key": info["calls"], "task_id_key": info["tasks"], "runner_id": info["runners"],
        "workflow_type_key": info["workflows"] or info["tasks"], "app_id": ["nope"],
    }
    path_params = [p for p in params if p["in"] == "path"]
    query_params = [p for p in params if p["in"] == "query"]
    fillings = []
    for cls in ("existing", "missing", "malformed"):
        vals = {}
        for p in path_params:
            pool = pools.get(p["name"], [])
            if cls == "existing":
                v = rng.choice(pool) if pool else "x"
            elif cls == "missing":
                v = "00000000-0000-0000-0000-000000000000" if "invocation" in p["name"] else "no.such:thing"
            else:
                v = rng.choice(["%27%3B--", "..%2F..", "a b", "%00", "x" * 300, "{}"])
            vals[p["name"]] = v
        fillings.append((cls, vals))
        if cls == "existing" and len(path_params) == 1:
            # every known value of the pool, not one draw (the page of each stored call / invocation / runner)
            nm = path_params[0]["name"]
            for v in pools.get(nm, [])[:8]:
                if v != vals.get(nm):
                    fillings.append((cls, {nm: v}))
        if not path_params:
            break
    out = []
    for cls, vals in fillings:
        url = path
        for k, v in vals.items():
            url = url.replace("{" + k + "}", urllib.parse.quote(str(v), safe="%"))
        qsets = [("noquery", {})]
        names = [p["name"] for p in query_params]
        if "limit" in names:
            qsets += [("limit-small", {"limit": rng.choice([1, 2, 3])}), ("limit-large", {"limit": 1000}), ("limit-zero", {"limit": 0}), ("limit-bad", {"limit": "abc"})]
        if "page" in names:
            qsets.append(("page", {"page": rng.choice([0, 1, 2, 99]), "limit": 2}))
        if "status" in names:
            qsets.append(("status", {"status": rng.choice(["registered", "success", "bogus", "running"])}))
        if "task_id" in names and info["tasks"]:
            qsets.append(("task", {"task_id": rng.choice(info["tasks"] + ["no.such"])}))
        if "time_range" in names:
            qsets.append(("time", {"time_range": rng.choice(["1h", "15m", "bogus"]), "resolution": rng.choice(["auto", "bad"])}))
        if "expand" in names and info["inv"]:
            qsets.append(("expand", {"expand": ",".join(info["inv"][:2]), "bare": 1}))
        if "log" in names:
            qsets.append(("log", {"log": f"invocation:{(info['inv'] or ['x'])[0]} runner:{info['runners'][0]}"}))
        if "workflow_id" in names and info["inv"]:
            qsets.append(("workflow", {"workflow_id": info["inv"][0]}))
        # identifiers passed as query parameters (e.g. /calls/?call_id_key=...): every known value of the pool, a missing one;
        # some views read them from request.query_params without declaring them, so the pool whose name matches the route is tried as well
        undeclared = [nm for nm in pools if nm not in names and not path_params and nm.split("_")[0] in path]
        for nm in names + undeclared:
            if nm in pools and pools[nm]:
                for v in pools[nm][:8]:
                    qsets.append((f"q-{nm}", {nm: v}))
                qsets.append((f"q-{nm}-missing", {nm: "no.such:thing"}))
        # filters combined: every pair of the single-filter sets, and all of them together
        singles = [(c, q) for c, q in qsets if c in ("status", "task", "page", "workflow", "limit-small", "time")]
        for i in range(len(singles)):
            for j in range(i + 1, len(singles)):
                qsets.append((singles[i][0] + "+" + singles[j][0], {**singles[i][1], **singles[j][1]}))
        if len(singles) > 2:
            allq = {}
            for _c, q in singles:
                allq.update(q)
            qsets.append(("all-filters", allq))
        if "status" in names and "task_id" in names and info["tasks"]:
            for st in ("registered", "success", "running", "pending"):
                qsets.append(("status+task:" + st, {"status": st, "task_id": rng.choice(info["tasks"])}))
        for qcls, q in qsets:
            full = url + ("?" + urllib.parse.urlencode(q) if q else "")
            out.append((f"{cls}/{qcls}", full))
    return out


def concurrent_gets(pa, app, info, rng, before, inv_ids, ref_keys, hooks, V, distinct, case, rounds):
    import asyncio
    import time as _t
    import httpx
    br = app.broker
    real_pop, real_push = br.retrieve_invocation, br.route_invocation

    def slow_pop():
        _t.sleep(rng.random() * 0.002)       # a blocking backend call: on one event loop nothing else runs meanwhile
        return real_pop()

    def slow_push(i):
        _t.sleep(rng.random() * 0.001)
        return real_push(i)
    br.retrieve_invocation, br.route_invocation = slow_pop, slow_push
    others = ["/broker/", "/invocations/", "/", "/broker/refresh", "/orchestrator/"]

    async def burst(urls):
        async with httpx.AsyncClient(transport=httpx.ASGITransport(app=pa.app), base_url="http://monitor") as client:
            return await asyncio.gather(*[client.get(u) for u in urls], return_exceptions=True)
    try:
        for r in range(rounds):
            urls = ["/broker/queue"] * rng.choice([2, 3]) + rng.sample(others, 2)
            rng.shuffle(urls)
            res = asyncio.run(burst(urls))
            pa.pynenc_instance = app
            hooks["get_requests"] += len(urls)
            hooks["concurrent_bursts"] += 1
            after = readout.full_readout(app, inv_ids, ref_keys, info["runners"])
            d = readout.diff(before, after)
            distinct.append(["concurrent", case["state"], len(urls), case["backend"]])
            if d:
                same = sorted(before["public"]["queue"] or []) == sorted(after["public"]["queue"] or [])
                kind = "queue-order" if all("queue" in x for x in d) and same else ("queue-content" if all("queue" in x for x in d) else "state")
                V.append({"sig": f"get-changed-system:overlapping-requests:{kind}", "what": f"overlapping GETs {urls} changed {d[:4]} in state '{case['state']}' on {case['backend']}",
                          "witness": {"urls": urls, "codes": [getattr(x, "status_code", repr(x)[:60]) for x in res], "queue_before": (before["public"]["queue"] or [])[:10],
                                      "queue_after": (after["public"]["queue"] or [])[:10], "changed_paths": d[:10]}})
                before = after
    finally:
        br.retrieve_invocation, br.route_invocation = real_pop, real_push


def run_case(case):
    import pynmon.app as pa
    from starlette.testclient import TestClient
    rng = random.Random(case["seed"])
    hooks = Counter()
    V, distinct = [], []
    routes, walked = get_routes()
    hooks["routes_seen"] = len(routes)
    missing_in_openapi = sorted(w for w in walked if w not in {p for p, _ in routes} and not w.startswith("/static"))
    with TmpDir() as td:
        app = make_app(case["backend"], td.db(), app_id=f"c20{case['backend']}{case['seed']}", cached_status_time=0.0)
        app.broker, app.orchestrator, app.state_backend, app.trigger, app.client_data_store, app.runner  # noqa: instantiate every component (lazy creation of an empty table is not a state change)
        info = build_state(app, case["state"], rng)
        hooks["states_built"] += 1
        pa.all_pynenc_instances.clear()
        pa.all_pynenc_instances[app.app_id] = app
        pa.pynenc_instance = app
        client = TestClient(pa.app, raise_server_exceptions=False)
        inv_ids = info["inv"][-14:]
        ref_keys = []
        before = readout.full_readout(app, inv_ids, ref_keys, info["runners"])
        status_codes = Counter()
        for path, params in routes:
            for pcls, url in fill_params(path, params, info, rng):
                try:
                    resp = client.get(url, follow_redirects=False)
                    code = resp.status_code
                except Exception as e:
                    code = f"exc:{type(e).__name__}"
                pa.pynenc_instance = app
                status_codes[str(code)] += 1
                hooks["get_requests"] += 1
                after = readout.full_readout(app, inv_ids, ref_keys, info["runners"])
                distinct.append([path, case["state"], pcls, case["backend"]])
                d = readout.diff(before, after)
                if d:
                    what_changed = "queue-order" if all("queue" in x for x in d) and sorted(before["public"]["queue"] or []) == sorted(after["public"]["queue"] or []) else \
                                   ("queue-content" if all("queue" in x or "message_queue" in x for x in d) else "state")
                    V.append({"sig": f"get-changed-system:{path}:{what_changed}",
                              "what": f"GET {url} (HTTP {code}) changed {d[:4]} in state '{case['state']}' on {case['backend']}",
                              "witness": {"url": url, "status": code, "state": case["state"], "backend": case["backend"], "changed_paths": d[:10],
                                          "queue_before": (before["public"]["queue"] or [])[:8], "queue_after": (after["public"]["queue"] or [])[:8],
                                          "queue_len_before": len(before["public"]["queue"] or []), "queue_len_after": len(after["public"]["queue"] or [])}})
                    before = after  # continue from the new state so one change is reported once
        # ---- overlapping GETs on the monitor's single event loop (what two browser tabs / an auto-refresh do), with small delays injected in the broker calls
        qlen = len(before["public"]["queue"] or [])
        single_get_neutral = False
        if 0 < qlen < 20:
            # baseline: one GET of the page alone must be neutral in this state (otherwise the single-request mechanism already reported above applies)
            client.get("/broker/queue")
            pa.pynenc_instance = app
            mid = readout.full_readout(app, inv_ids, ref_keys, info["runners"])
            single_get_neutral = not readout.diff(before, mid)
            before = mid
        if 0 < qlen < 20 and single_get_neutral:
            concurrent_gets(pa, app, info, rng, before, inv_ids, ref_keys, hooks, V, distinct, case, rounds=6 if case.get("variant", 0) == 0 else 12)
    seen, out = Counter(), []
    for v in V:
        seen[v["sig"]] += 1
        if seen[v["sig"]] <= 2:
            out.append(v)
    dset = {tuple(d) for d in distinct}
    return {"violations": out, "distinct": [list(d) for d in dset], "hooks": dict(hooks), "events": hooks["get_requests"], "evaluations": hooks["get_requests"],
            "sample": {"case": case, "status_codes": dict(status_codes), "n_routes": len(routes), "routes_walked_not_in_openapi": missing_in_openapi} if case["id"] % 4 == 0 else None,
            "extra": {"http_5xx": sum(v for k, v in status_codes.items() if k.startswith("5")), "http_2xx": sum(v for k, v in status_codes.items() if k.startswith("2"))}}
