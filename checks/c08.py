"""C08 - the broker delivers each routed message exactly once, first in first out.

(a) sequential histories on both brokers against a deque model (exact, repeated ids allowed);
(b) free-running process stress on the SQLite broker (unique ids, injected delays between the
    statements of one operation), checked offline with the queue-linearizability conditions for
    distinct values: never-enqueued, dequeued-twice, order violation, empty-while-non-empty, loss;
(c) controlled statement-level interleavings of 2-3 retrievers/routers (scheduler, vlib.sched).
"""
from __future__ import annotations

import json
import os
import random
import time
from collections import Counter, deque

from vlib.apps import TmpDir, make_app

PID = "C08"
LEVEL = "exploration"
RULE = ("(a) seeded random operation sequences (route / batch route with repeats / retrieve / count / purge, 50-300 ops) on both "
        "brokers in lockstep with a deque model, distinct = sequence hash, non-trivial = contains a retrieve on a non-empty queue and a "
        "batch with a repeated id; (b) multi-process histories (routers+retrievers on one file, unique ids, delay injection), distinct = "
        "history with >=2 overlapping retrieves that both returned ids; (c) controlled schedules of retrievers/routers at SQL-statement "
        "granularity, distinct = schedule signature with a context switch inside an operation")
ASSUMPTIONS = [
    "SQLite delivery order depends on julianday('now') evaluated inside SQLite; FIFO is observed under the real, monotone clock only",
    "process-mode intervals use CLOCK_MONOTONIC (system-wide on Linux); operations whose intervals overlap are treated as concurrent",
]
REQUIRED_HOOKS = ["seq_ops", "retrieves_checked", "proc_histories", "sched_schedules"]


def WORKERS(tier):
    return 12


def gen_cases(tier, seed):
    thorough = tier == "thorough"
    cases = []
    nseq = 20000 if thorough else 400
    per = 100 if thorough else 20
    for i in range(nseq // per):
        cases.append({"kind": "seq", "seed": seed * 100003 + i, "n": per})
    nproc = 36 if thorough else 8
    for i in range(nproc):
        cases.append({"kind": "proc", "seed": seed * 7 + i, "rounds": 10 if thorough else 4,
                      "routers": 1 + i % 2, "retrievers": 2 + i % 3, "msgs": 12 + (i % 4) * 6})
    # controlled schedules
    scen = [("2ret_3msg", 2, 0, 3), ("2ret_1rout", 2, 1, 2), ("3ret_2msg", 3, 0, 2)]
    # the in-memory broker at source-line granularity (what several runner threads in one process really do)
    for name, nret, nrout, pre in [("mem_2ret_1msg", 2, 0, 1), ("mem_2ret_1rout", 2, 1, 1), ("mem_3ret_2msg", 3, 0, 2)]:
        cases.append({"kind": "sched", "backend": "mem", "scenario": name, "retrievers": nret, "routers": nrout, "preloaded": pre, "strategy": "dfs",
                      "p": 3 if thorough else 2, "seed": seed})
        cases.append({"kind": "sched", "backend": "mem", "scenario": name, "retrievers": nret, "routers": nrout, "preloaded": pre, "strategy": "pct",
                      "n": 2000 if thorough else 150, "seed": seed * 17 + 3})
    for name, nret, nrout, pre in scen:
        if thorough:
            cases.append({"kind": "sched", "scenario": name, "retrievers": nret, "routers": nrout, "preloaded": pre, "strategy": "dfs", "p": 3 if nret == 2 and nrout == 0 else 2, "seed": seed})
            for j in range(10):
                cases.append({"kind": "sched", "scenario": name, "retrievers": nret, "routers": nrout, "preloaded": pre, "strategy": "pct", "n": 300, "seed": seed * 31 + j})
        else:
            cases.append({"kind": "sched", "scenario": name, "retrievers": nret, "routers": nrout, "preloaded": pre, "strategy": "dfs", "p": 2 if (nret == 2 and nrout == 0) else 1, "seed": seed})
            cases.append({"kind": "sched", "scenario": name, "retrievers": nret, "routers": nrout, "preloaded": pre, "strategy": "pct", "n": 80, "seed": seed * 31 + 1})
    return cases


# ------------------------------------------------------------------ (a) sequential


def run_seq(case, V, hooks, distinct):
    import hashlib
    rng = random.Random(case["seed"])
    with TmpDir() as td:
        apps = {"mem": make_app("mem"), "sqlite": make_app("sqlite", td.db())}
        for _ in range(case["n"]):
            model = deque()
            routed = retrieved = 0
            ids = [f"id{j}" for j in range(rng.randint(2, 6))]
            nops = rng.randint(50, 300) if rng.random() < 0.3 else rng.randint(10, 60)
            trail = []
            nontrivial = {"ret_nonempty": False, "dup_batch": False}
            for b in apps.values():
                b.broker.purge()
            for _op in range(nops):
                r = rng.random()
                if r < 0.3:
                    op = ("route", rng.choice(ids))
                elif r < 0.45:
                    k = rng.randint(0, 5)
                    batch = [rng.choice(ids) for _ in range(k)]
                    op = ("batch", batch)
                    if len(set(batch)) < len(batch):
                        nontrivial["dup_batch"] = True
                elif r < 0.85:
                    op = ("retrieve",)
                elif r < 0.97:
                    op = ("count",)
                else:
                    op = ("purge",)
                trail.append(list(op))
                # model
                if op[0] == "route":
                    model.append(op[1]); exp = None
                elif op[0] == "batch":
                    model.extend(op[1]); exp = None
                elif op[0] == "retrieve":
                    if model:
                        nontrivial["ret_nonempty"] = True
                    exp = model.popleft() if model else None
                elif op[0] == "count":
                    exp = len(model)
                else:
                    model.clear(); exp = None
                for kind, app in apps.items():
                    br = app.broker
                    hooks["seq_ops"] += 1
                    try:
                        if op[0] == "route":
                            got = br.route_invocation(op[1]); got = None
                        elif op[0] == "batch":
                            br.route_invocations(list(op[1])); got = None
                        elif op[0] == "retrieve":
                            got = br.retrieve_invocation()
                            hooks["retrieves_checked"] += 1
                        elif op[0] == "count":
                            got = br.count_invocations()
                        else:
                            br.purge(); got = None
                    except Exception as e:
                        V.append({"sig": f"seq:{op[0]}-raised:{kind}", "what": f"{kind}: {op[0]} raised {type(e).__name__}: {e}",
                                  "witness": {"trail": trail[-15:]}})
                        continue
                    if got != exp:
                        what = "order-or-loss" if op[0] == "retrieve" else "count-mismatch"
                        V.append({"sig": f"seq:{what}:{kind}", "what": f"{kind}: {op[0]} returned {got!r}, model {exp!r}",
                                  "witness": {"trail": trail[-25:], "model_queue": list(model)[:10]}})
            # drain and compare
            for kind, app in apps.items():
                rest = []
                while True:
                    x = app.broker.retrieve_invocation()
                    if x is None:
                        break
                    rest.append(x)
                    if len(rest) > len(model) + 5:
                        break
                if rest != list(model):
                    V.append({"sig": f"seq:drain-mismatch:{kind}", "what": f"{kind}: drained {rest[:8]} expected {list(model)[:8]}",
                              "witness": {"trail": trail[-25:]}})
                if app.broker.count_invocations() != 0:
                    V.append({"sig": f"seq:count-after-drain:{kind}", "what": "count != 0 after drain", "witness": {"trail": trail[-25:]}})
            if all(nontrivial.values()):
                distinct.append(["seq", hashlib.sha1(repr(trail).encode()).hexdigest()[:12]])
    return case["n"]


# ------------------------------------------------------------------ (b) processes


def _child(role, idx, db, app_id, logpath, nmsg, stop_at, seed, go_at):
    from vlib import sqlhook
    sqlhook.install("delay", seed=seed, p=0.35, max_ms=1.5)
    app = make_app("sqlite", db, app_id=app_id)
    br = app.broker
    log = []
    while time.monotonic() < go_at:
        pass
    mono = time.monotonic_ns
    if role == "router":
        for n in range(nmsg):
            mid = f"r{idx}#{n}"
            c = mono()
            try:
                br.route_invocation(mid)
                log.append(["route", mid, c, mono(), None])
            except Exception as e:
                log.append(["route", mid, c, None, f"{type(e).__name__}: {e}"])
    else:
        empties = 0
        while time.monotonic() < stop_at and empties < 400:
            c = mono()
            try:
                got = br.retrieve_invocation()
                log.append(["retrieve", got, c, mono(), None])
                empties = empties + 1 if got is None else 0
            except Exception as e:
                log.append(["retrieve", None, c, None, f"{type(e).__name__}: {e}"])
    with open(logpath, "w") as f:
        json.dump(log, f)
    os._exit(0)


def check_queue_history(ops, final_drain, final_count):
    """ops: [kind, value, call, ret, err]. Returns list of (sig, what, witness)."""
    out = []
    routes = {o[1]: o for o in ops if o[0] == "route"}
    rets = [o for o in ops if o[0] == "retrieve"]
    for o in ops:
        if o[4] is not None or o[3] is None:
            out.append((f"proc:{o[0]}-raised", f"{o[0]} raised {o[4]}", {"op": o}))
    got = [o for o in rets if o[1] is not None]
    seen = {}
    for o in got:
        if o[1] not in routes and o[1] not in ("__pre__",) and not str(o[1]).startswith("pre#"):
            out.append(("proc:never-enqueued", f"retrieved {o[1]} that nobody routed", {"op": o}))
        if o[1] in seen:
            out.append(("proc:dequeued-twice", f"message {o[1]} delivered twice", {"first": seen[o[1]], "second": o}))
        seen[o[1]] = o
    drained = list(final_drain)
    for x in drained:
        if x in seen:
            out.append(("proc:dequeued-twice", f"message {x} delivered and still in the queue", {"first": seen[x]}))
    delivered = set(seen) | set(drained)
    for mid, ro in routes.items():
        if ro[3] is not None and mid not in delivered:
            out.append(("proc:lost", f"message {mid} routed but never delivered", {"route": ro}))
    if final_count != 0:
        out.append(("proc:count-after-drain", f"count {final_count} after the final drain", {}))
    # order: a routed strictly before b, b retrieved strictly before a
    items = [(routes[m], seen[m]) for m in seen if m in routes and routes[m][3] is not None]
    items.sort(key=lambda p: p[0][2])
    for i, (ra, da) in enumerate(items):
        for rb, db_ in items[i + 1:]:
            if ra[3] < rb[2] and db_[3] < da[2]:
                out.append(("proc:order-violation", f"{ra[1]} routed before {rb[1]} but delivered after it", {"a": [ra, da], "b": [rb, db_]}))
                break
    # empty-while-non-empty
    for o in rets:
        if o[1] is None and o[3] is not None:
            for mid, ro in routes.items():
                if ro[3] is not None and ro[3] < o[2]:
                    d = seen.get(mid)
                    if d is None or d[2] > o[3]:
                        if d is None and mid not in drained:
                            continue  # reported as lost already
                        out.append(("proc:empty-while-nonempty", f"retrieve returned nothing while {mid} was queued during the whole operation",
                                    {"retrieve": o, "route": ro, "delivery": d}))
                        break
    return out


def run_proc(case, V, hooks, distinct):
    rng = random.Random(case["seed"])
    n_over = 0
    with TmpDir() as td:
        for rnd in range(case["rounds"]):
            db = td.db(f"q{rnd}.sqlite")
            app_id = f"c08p{os.getpid()}r{rnd}"
            app = make_app("sqlite", db, app_id=app_id)
            app.broker.purge()
            go_at = time.monotonic() + 0.15
            stop_at = go_at + 1.2
            kids = []
            roles = [("router", i) for i in range(case["routers"])] + [("retriever", i) for i in range(case["retrievers"])]
            for role, idx in roles:
                lp = os.path.join(td.path, f"log_{rnd}_{role}_{idx}.json")
                pid = os.fork()
                if pid == 0:
                    try:
                        _child(role, idx, db, app_id, lp, case["msgs"], stop_at, rng.randrange(1 << 30) + idx, go_at)
                    finally:
                        os._exit(3)
                kids.append((pid, lp, role, idx))
            ops = []
            for pid, lp, role, idx in kids:
                _, st = os.waitpid(pid, 0)
                if os.path.exists(lp):
                    with open(lp) as f:
                        for o in json.load(f):
                            ops.append(o + [f"{role}{idx}"])
                else:
                    V.append({"sig": "proc:child-died", "what": f"{role}{idx} exit status {st}", "witness": {}})
            drain = []
            while True:
                x = app.broker.retrieve_invocation()
                if x is None:
                    break
                drain.append(x)
            cnt = app.broker.count_invocations()
            hooks["proc_histories"] += 1
            hooks["retrieves_checked"] += sum(1 for o in ops if o[0] == "retrieve")
            for sig, what, wit in check_queue_history(ops, drain, cnt):
                V.append({"sig": sig, "what": what, "witness": {**wit, "round": rnd, "n_ops": len(ops)}})
            # distinctness: two overlapping retrieves that both returned ids
            got = sorted([o for o in ops if o[0] == "retrieve" and o[1] is not None and o[3]], key=lambda o: o[2])
            overl = sum(1 for a, b in zip(got, got[1:]) if b[2] < a[3])
            if overl:
                n_over += 1
                distinct.append(["proc", case["seed"], rnd, overl])
    return case["rounds"]


# ------------------------------------------------------------------ (c) controlled schedules


def run_sched(case, V, hooks, distinct):
    from vlib import sched as S, sqlhook
    nret, nrout, pre = case["retrievers"], case["routers"], case["preloaded"]
    td = TmpDir()
    backend = case.get("backend", "sqlite")
    app = make_app(backend, td.db("s.sqlite"), app_id="c08s")
    br = app.broker

    def scenario(sc):
        br.purge()
        for i in range(pre):
            br.route_invocation(f"pre#{i}")
        hist = []

        def retriever(name):
            def body():
                for _ in range(2 if nrout else (pre // nret + 1)):
                    c = sc.stamp()
                    try:
                        got = br.retrieve_invocation()
                        hist.append(["retrieve", got, c, sc.stamp(), None, name])
                    except Exception as e:
                        hist.append(["retrieve", None, c, None, f"{type(e).__name__}: {e}", name])
            return body

        def router(name):
            def body():
                for k in range(2):
                    mid = f"{name}#{k}"
                    c = sc.stamp()
                    try:
                        br.route_invocation(mid)
                        hist.append(["route", mid, c, sc.stamp(), None, name])
                    except Exception as e:
                        hist.append(["route", mid, c, None, f"{type(e).__name__}: {e}", name])
            return body

        for i in range(nret):
            sc.spawn(f"ret{i}", retriever(f"ret{i}"))
        for i in range(nrout):
            sc.spawn(f"rout{i}", router(f"rout{i}"))

        def finish():
            drain = []
            while True:
                x = br.retrieve_invocation()
                if x is None:
                    break
                drain.append(x)
            cnt = br.count_invocations()
            pre_routes = [["route", f"pre#{i}", -100 + i, -99.5 + i, None, "setup"] for i in range(pre)]
            vios = check_queue_history(pre_routes + hist, drain, cnt)
            return (vios, hist) if vios else None
        return finish

    try:
        from vlib import linemon
        res = S.explore(scenario, strategy=case["strategy"], max_preemptions=case.get("p", 2), n=case.get("n", 100),
                        seed=case["seed"], sql=(backend == "sqlite"), lines=linemon.MEM_BROKER if backend == "mem" else None, max_steps=4000,
                        time_budget=120)
    finally:
        td.close()
    hooks["sched_schedules"] += res["schedules"]
    hooks["retrieves_checked"] += res["schedules"] * nret
    for sig_ in res["signatures_nontrivial"]:
        distinct.append(["sched", case["scenario"], sig_])
    for r in res["results"]:
        if r.get("deadlock"):
            V.append({"sig": "sched:deadlock", "what": "all actors blocked", "witness": {"choices": r["choices"], "trace": r["trace"][-30:]}})
        if r.get("error"):
            V.append({"sig": "sched:harness-error", "what": r["error"], "witness": {"choices": r["choices"]}})
            continue
        out = r.get("out")
        if not out:
            continue
        vios, hist = out
        for sig, what, wit in vios:
            V.append({"sig": sig.replace("proc:", "sched:"), "what": what, "witness": {**wit, "choices": r["choices"], "history": hist, "trace": r["trace"][-40:]}})
    return res["schedules"], res


def run_case(case):
    hooks = Counter()
    V, distinct = [], []
    extra = {}
    inconc = None
    if case["kind"] == "seq":
        ev = run_seq(case, V, hooks, distinct)
    elif case["kind"] == "proc":
        ev = run_proc(case, V, hooks, distinct)
    else:
        ev, res = run_sched(case, V, hooks, distinct)
        extra = {"sched_steps": res["steps"], "sched_exhausted": 1 if res.get("exhausted") else 0}
        if res.get("inconclusive"):
            inconc = res["inconclusive"]
    seen, out = Counter(), []
    for v in V:
        seen[v["sig"]] += 1
        if seen[v["sig"]] <= 3:
            out.append(v)
    sample = case if case["id"] % 13 == 0 else None
    return {"violations": out, "distinct": distinct, "hooks": dict(hooks), "events": sum(hooks.values()), "evaluations": ev,
            "sample": sample, "extra": extra, "inconclusive": inconc}
