"""C10 - the recorded history of an invocation is exactly its sequence of status changes.

Not its own scenarios: the monitor is switched on in the controlled scenario set of C02 (claims, duplicate messages,
blocking priority, kill-and-reroute, pending recovery, retries, concurrency-control reroutes) with the asynchronous
history writers scheduled as independent actors that the strategy may starve until the flush, plus random
C01-style request sequences.  Ground truth: registration probe + in-lock transition hook; virtual clock makes every
status timestamp unique.
"""
from __future__ import annotations

import random
from collections import Counter

from vlib.apps import TmpDir, make_app, runner_ctx, flush_history
from vlib.models.lifecycle import Lifecycle, load_doc_edges, STATUSES, OWNED
from vlib import oracles

PID = "C10"
LEVEL = "exploration"
RULE = ("every schedule of the C02 scenario set S2-S7 (mem/line, sqlite/statement; pct with the history writer threads as starvable actors, "
        "bounded dfs on S2) and seeded random request sequences per backend; after the flush the stored history of every invocation is "
        "compared with the in-lock log; distinct = (mode, scenario, schedule signature) for lifecycles containing a non-linear step "
        "(retry, reroute, kill, recovery), sequence hash for the random sequences")
ASSUMPTIONS = [
    "content and order of the in-lock hook log are the ground truth (written inside the critical section that performs the change)",
    "status timestamps are unique under the virtual clock; entries are matched with a 2 microsecond tolerance (float seconds in SQLite)",
]
REQUIRED_HOOKS = ["schedules", "histories_compared", "history_entries", "nonlinear_lifecycles", "random_sequences"]


def WORKERS(tier):
    return 14


def TIMEOUT(tier):
    return 900 if tier == "quick" else 5400


def gen_cases(tier, seed):
    thorough = tier == "thorough"
    cases = []
    scen = ["S2", "S3", "S4", "S5", "S6", "S7", "S8"]
    for mode in ("mem", "sqlite"):
        cases.append({"kind": "sched", "mode": mode, "scenario": "S2", "n": 2, "strategy": "dfs", "p": 2 if thorough else 1, "seed": seed, "budget": 300 if thorough else 30})
        reps = 10 if thorough else 1
        for r in range(reps):
            for j, sc in enumerate(scen):
                cases.append({"kind": "sched", "mode": mode, "scenario": sc, "n": 2 + (j + r) % 2, "strategy": "pct", "count": 200 if thorough else 40,
                              "seed": seed * 131 + j + 17 * r, "budget": 200 if thorough else 30})
    for i in range(20 if thorough else 4):
        cases.append({"kind": "rand", "seed": seed * 7919 + i, "n": 100 if thorough else 25})
    # one requester, strictly sequential changes, history writers starved / reordered by the scheduler:
    # here the history's own order (what get_history returns) must be the order of the changes
    for mode in ("mem", "sqlite"):
        cases.append({"kind": "seqsched", "mode": mode, "count": 400 if thorough else 40, "seed": seed * 311 + 5, "budget": 200 if thorough else 25})
    return cases


def run_sched(case, V, hooks, distinct):
    from vlib import sched as S, shims as SH, vclock
    from checks import c02
    mode = case["mode"]
    edges, _, _ = load_doc_edges()
    model = Lifecycle(edges)
    td = TmpDir()
    counter = {"n": 0}
    totals = Counter()
    clock = vclock.VClock(tick=1e-5)
    inst = vclock.install(clock, only=["pynenc.invocation.status", "pynenc.state_backend.base_state_backend"])

    def scenario(sc):
        counter["n"] += 1
        run = c02.Run(mode, case["scenario"], case["n"], sc, td, counter["n"], model)

        def fin():
            from vtasks import basic
            basic.BODY_HOOK[0] = None
            run.probes.uninstall()
            flush_history(run.app)
            vios, stats = oracles.history_check(run.app, run.log.events, model)
            totals.update(stats)
            totals["schedules_nonlinear"] += 1 if stats["nonlinear"] else 0
            if not vios:
                return None
            return {"violations": vios[:6], "history": [{k: v for k, v in e.items() if k != "thread"} for e in run.log.events
                                                        if e["kind"] in ("transition", "registered", "history_enqueued")][-50:]}
        return fin

    shims = SH.Shims() if mode == "mem" else SH.Shims(threading_modules=["pynenc.state_backend.base_state_backend"], time_modules=["pynenc.util.sqlite_utils"])
    try:
        res = S.explore(scenario, strategy=case["strategy"], max_preemptions=case.get("p", 1), n=case.get("count", 40), seed=case["seed"],
                        sql=(mode == "sqlite"), lines=c02.line_specs() if mode == "mem" else None, shims=shims, max_steps=8000,
                        time_budget=case.get("budget"))
    finally:
        inst.uninstall()
        td.close()
    hooks["schedules"] += res["schedules"]
    hooks["histories_compared"] += totals["invocations"]
    hooks["history_entries"] += totals["entries"]
    hooks["nonlinear_lifecycles"] += totals["nonlinear"]
    hooks["random_sequences"] += 0
    if totals["nonlinear"]:
        for s_ in res["signatures_nontrivial"]:
            distinct.append([mode, case["scenario"], case["n"], s_])
    for r in res["results"]:
        base = {"mode": mode, "scenario": case["scenario"], "choices": r["choices"], "trace_tail": r["trace"][-30:]}
        if r.get("deadlock"):
            V.append({"sig": f"deadlock:{mode}", "what": "every live actor is blocked", "witness": base})
        if r.get("error"):
            V.append({"sig": f"harness-error:{mode}", "what": r["error"][:400], "witness": base})
        out = r.get("out")
        if out:
            for sig, what, wit in out["violations"]:
                V.append({"sig": f"{sig}:{mode}", "what": what, "witness": {**base, "detail": wit, "log": out["history"]}})
    return res.get("inconclusive")


def run_rand(case, V, hooks, distinct):
    """C01-style random request sequences (free-running history writer threads, real clock replaced by the virtual one)."""
    import hashlib
    from vlib import probes, vclock
    from pynenc.invocation.status import InvocationStatus
    from pynenc.exceptions import InvocationStatusError
    from vtasks import basic
    rng = random.Random(case["seed"])
    edges, _, _ = load_doc_edges()
    model = Lifecycle(edges)
    clock = vclock.VClock(tick=1e-5)
    inst = vclock.install(clock, only=["pynenc.invocation.status", "pynenc.state_backend.base_state_backend"])
    try:
        with TmpDir() as td:
            for backend in ("mem", "sqlite"):
                log = probes.Log()
                pr = probes.install(log)
                try:
                    app = make_app(backend, td.db(), app_id=f"c10r{backend}{case['seed']}", cached_status_time=0.0)
                    task = app.task(basic.echo)
                    ctxs = {n: runner_ctx("R", n) for n in ("A", "B", "C")}
                    for _ in range(case["n"]):
                        invs = [task(i).invocation_id for i in range(3)]
                        trail = []
                        for _s in range(rng.randint(20, 50)):
                            i = rng.choice(invs)
                            rec = app.orchestrator.get_invocation_status_record(i)
                            legal = [s for s in STATUSES if model.has_edge(rec.status.name, s)]
                            req = rng.choice(legal) if legal and rng.random() < 0.75 else rng.choice(STATUSES)
                            who = rec.runner_id if rec.status.name in OWNED and rec.runner_id in ctxs and rng.random() < 0.8 else rng.choice(list(ctxs))
                            try:
                                app.orchestrator.set_invocation_status(i, InvocationStatus[req], ctxs[who])
                            except InvocationStatusError:
                                pass
                            trail.append((invs.index(i), req, who))
                        hooks["random_sequences"] += 1
                        distinct.append(["rand", backend, hashlib.sha1(repr(trail).encode()).hexdigest()[:12]])
                    flush_history(app)
                    vios, stats = oracles.history_check(app, log.events, model)
                    hooks["histories_compared"] += stats["invocations"]
                    hooks["history_entries"] += stats["entries"]
                    hooks["nonlinear_lifecycles"] += stats["nonlinear"]
                    for sig, what, wit in vios[:10]:
                        V.append({"sig": f"{sig}:{backend}:sequential", "what": what, "witness": wit})
                finally:
                    pr.uninstall()
    finally:
        inst.uninstall()
    hooks["schedules"] += 0


def run_seqsched(case, V, hooks, distinct):
    import hashlib
    from vlib import sched as S, shims as SH, vclock, probes
    from pynenc.invocation.status import InvocationStatus
    from pynenc.exceptions import InvocationStatusError
    from vtasks import basic
    mode = case["mode"]
    edges, _, _ = load_doc_edges()
    model = Lifecycle(edges)
    td = TmpDir()
    counter = {"n": 0}
    rng = random.Random(case["seed"])
    clock = vclock.VClock(tick=1e-5)
    inst = vclock.install(clock, only=["pynenc.invocation.status", "pynenc.state_backend.base_state_backend"])
    totals = Counter()

    def scenario(sc):
        import os
        counter["n"] += 1
        db = td.db(f"q{counter['n'] % 20}.sqlite")
        for ext in ("", "-wal", "-shm"):
            try:
                os.remove(db + ext)
            except FileNotFoundError:
                pass
        log = probes.Log()
        pr = probes.install(log)
        app = make_app(mode, db, app_id=f"c10q{mode}", cached_status_time=0.0)
        task = app.task(basic.echo)
        ctx = runner_ctx("R", "only-runner")
        invs = [task(i).invocation_id for i in range(2)]
        flush_history(app)
        order = {i: ["REGISTERED"] for i in invs}
        seed = rng.randrange(1 << 30)

        def main():
            r = random.Random(seed)
            for _ in range(r.randint(6, 14)):
                i = r.choice(invs)
                rec = app.orchestrator.get_invocation_status_record(i)
                legal = [s for s in STATUSES if model.has_edge(rec.status.name, s)]
                if not legal:
                    continue
                req = r.choice(legal)
                try:
                    app.orchestrator.set_invocation_status(i, InvocationStatus[req], ctx)
                    order[i].append(req)
                except InvocationStatusError:
                    pass
        sc.spawn("main", main)

        def fin():
            pr.uninstall()
            flush_history(app)
            vios, stats = oracles.history_check(app, log.events, model)
            totals.update(stats)
            out = [(s_, w_, x_) for s_, w_, x_ in vios]
            for i in invs:
                got = [h.status_record.status.name for h in app.state_backend.get_history(i)]
                totals["own_order_checked"] += 1
                if got != order[i]:
                    out.append(("history:own-order-differs-from-change-order:single-requester",
                                f"invocation {i[:8]}: changes were made in the order {order[i]} by one runner, get_history returns {got}", {"made": order[i], "returned": got}))
            return out[:6] or None
        return fin

    shims = SH.Shims() if mode == "mem" else SH.Shims(threading_modules=["pynenc.state_backend.base_state_backend"], time_modules=["pynenc.util.sqlite_utils"])
    try:
        res = S.explore(scenario, strategy="pct", n=case["count"], seed=case["seed"], sql=(mode == "sqlite"), shims=shims, max_steps=8000,
                        time_budget=case.get("budget"), depth=3)
    finally:
        inst.uninstall()
        td.close()
    hooks["schedules"] += res["schedules"]
    hooks["histories_compared"] += totals["invocations"]
    hooks["history_entries"] += totals["entries"]
    hooks["nonlinear_lifecycles"] += totals["nonlinear"]
    hooks["own_order_checked"] += totals["own_order_checked"]
    hooks["random_sequences"] += 0
    for s_ in res["signatures_nontrivial"]:
        distinct.append([mode, "seqsched", s_])
    for r in res["results"]:
        base = {"mode": mode, "choices": r["choices"], "trace_tail": r["trace"][-30:]}
        if r.get("error"):
            V.append({"sig": f"harness-error:{mode}", "what": r["error"][:400], "witness": base})
        for sig, what, wit in (r.get("out") or []):
            V.append({"sig": f"{sig}:{mode}", "what": what, "witness": {**base, "detail": wit}})
    return res.get("inconclusive")


def run_case(case):
    hooks = Counter()
    V, distinct = [], []
    inconc = None
    if case["kind"] == "sched":
        inconc = run_sched(case, V, hooks, distinct)
    elif case["kind"] == "seqsched":
        inconc = run_seqsched(case, V, hooks, distinct)
    else:
        run_rand(case, V, hooks, distinct)
    seen, out = Counter(), []
    for v in V:
        seen[v["sig"]] += 1
        if seen[v["sig"]] <= 2:
            out.append(v)
    return {"violations": out, "distinct": distinct, "hooks": dict(hooks), "events": hooks["history_entries"], "evaluations": hooks["schedules"] + hooks["random_sequences"],
            "sample": case if case["id"] % 5 == 0 else None, "inconclusive": inconc}
