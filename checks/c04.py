"""C04 - recovery re-queues stuck PENDING/RUNNING work and never steals live work.

hist : random histories (heartbeats own / reported by a parent, claims, starts, finishes, clock advances hitting the
       limits exactly, +-5 microseconds and far away, recovery scans and recovery runs) under a frozen virtual clock,
       both backends in lockstep, reference model of "stuck" and "live"
race : the real recovery task as one actor, the owners still making progress on the listed invocations as another,
       under the controlled scheduler (statement / line granularity): a recovery run that loses a race must still
       re-queue every invocation it had already taken
"""
from __future__ import annotations

import os
import random
import time as _time
from collections import Counter

from vlib.apps import TmpDir, make_app, runner_ctx, set_thread_ctx, clear_thread_ctx, queue_ids, flush_history

PID = "C04"
LEVEL = "exploration"
RULE = ("histories of 40 operations over 3-5 runners (parents and children) x timeout settings {0, tiny, default, huge} x process time zones, "
        "clock advances drawn to hit the limits exactly / +-5us / far; distinct = history in which at least one recovery selected something "
        "and spared something; race schedules: dfs(p) and pct over 2 scenarios per backend, distinct = schedule signature in which the owner "
        "moved between the scan and the recovery transition")
ASSUMPTIONS = [
    "all operations happen at harness-chosen frozen instants of the virtual clock (names `time` in the orchestrator modules and `datetime` in invocation.status rebound)",
    "instants within 2 microseconds of a limit are don't-care for the verdict but both backends must still agree",
    "a heartbeat reported by a parent for a child is the orchestrator call the parent's loop makes (register_runner_heartbeats with the child ids); that the parent reports exactly its alive children is C14's oracle",
]
REQUIRED_HOOKS = ["scans_compared", "recovery_runs", "stuck_requeued_checked", "live_untouched_checked", "race_schedules"]
EPS = 2e-6


def WORKERS(tier):
    return 14


def TIMEOUT(tier):
    return 900 if tier == "quick" else 5400


def gen_cases(tier, seed):
    thorough = tier == "thorough"
    cases = []
    n = 10000 if thorough else 400
    per = 100 if thorough else 16
    settings = [(0.0, 0.0), (0.001, 0.0001), (5.0, 10.0), (5.0, 0.05), (1e6, 1e6), (0.5, 10.0)]
    tzs = ["UTC", "EST5", "JST-9"]
    for i in range(n // per):
        mp, dead = settings[i % len(settings)]
        cases.append({"kind": "hist", "seed": seed * 40009 + i, "n": per, "max_pending": mp, "dead_minutes": dead, "tz": tzs[i % 3]})
    for backend in ("mem", "sqlite"):
        for scen in ("pending", "running"):
            cases.append({"kind": "race", "backend": backend, "scenario": scen, "strategy": "dfs", "p": 3 if thorough else 2, "seed": seed, "budget": 300 if thorough else 30})
            cases.append({"kind": "race", "backend": backend, "scenario": scen, "strategy": "pct", "count": 2500 if thorough else 60, "seed": seed * 71 + 3, "budget": 300 if thorough else 30})
    # a live parent runner's real run() loop in virtual time: its alive children must never look dead to the running-recovery scan, for every timeout setting
    for backend in ("mem", "sqlite"):
        for kind in ("mtr", "ppr"):
            for dead_minutes in ((0.05, 0.2, 1.0, 10.0) if thorough else (0.05, 1.0)):
                cases.append({"kind": "parentloop", "backend": backend, "parent": kind, "dead_minutes": dead_minutes, "seed": seed, "n": 0})
    return cases


# ------------------------------------------------------------------------------------------- histories


def run_recovery(app, ctx, which):
    from pynenc import core_tasks
    fn = core_tasks.recover_pending_invocations if which == "pending" else core_tasks.recover_running_invocations
    set_thread_ctx(app, ctx)
    try:
        fn.func()
        return None
    except Exception as e:
        return e
    finally:
        clear_thread_ctx(app)


def run_hist(case, V, hooks, distinct):
    import hashlib
    from vlib import vclock
    from pynenc.invocation.status import InvocationStatus
    from vtasks import basic
    rng = random.Random(case["seed"])
    os.environ["TZ"] = case["tz"]
    _time.tzset()
    clock = vclock.VClock(start=1_700_000_000.0)
    inst = vclock.install(clock, only=["pynenc.orchestrator.base_orchestrator", "pynenc.orchestrator.mem_orchestrator",
                                       "pynenc.orchestrator.sqlite_orchestrator", "pynenc.invocation.status", "pynenc.state_backend.base_state_backend"])
    limit = case["max_pending"]
    timeout = case["dead_minutes"] * 60
    try:
        with TmpDir() as td:
            for hn in range(case["n"]):
                T = 1_700_000_000.0 + hn * 1000.0
                clock.freeze(T)
                apps = {"mem": make_app("mem", app_id=f"c04m{case['seed']}_{hn}", cached_status_time=0.0, max_pending_seconds=limit, runner_considered_dead_after_minutes=case["dead_minutes"]),
                        "sqlite": make_app("sqlite", td.db(f"h{hn % 8}.sqlite"), app_id=f"c04s{case['seed']}_{hn}", cached_status_time=0.0, max_pending_seconds=limit,
                                           runner_considered_dead_after_minutes=case["dead_minutes"])}
                tasks = {k: a.task(basic.echo) for k, a in apps.items()}
                nrun = rng.randint(3, 5)
                parent = runner_ctx("PersistentProcessRunner", "parent")
                ctxs = [runner_ctx("PPRWorker", f"child-{i}", parent=parent) if i % 2 else runner_ctx("ThreadRunner", f"runner-{i}") for i in range(nrun)]
                rec_ctx = runner_ctx("ThreadRunner", "recovery-runner")
                surv = runner_ctx("ThreadRunner", "survivor")
                # one model per backend: re-queue order after a recovery run follows set iteration over ids that differ per
                # backend, so later claims may legitimately pick different invocations; each backend is judged against its own model
                M = {k: [] for k in apps}     # backend -> per index {"st", "owner", "ts"}
                ids = {k: [] for k in apps}
                last_hb = {}
                trail = []
                selected_any = spared_any = False
                nsub = rng.randint(3, 6)
                for n_ in range(nsub):
                    for k in apps:
                        ids[k].append(tasks[k](n_).invocation_id)
                        M[k].append({"st": "REGISTERED", "owner": None, "ts": T})

                def stuck_pending(inv, T):
                    must = {i for i, r in enumerate(inv) if r["st"] == "PENDING" and T - r["ts"] >= limit + EPS}
                    may = {i for i, r in enumerate(inv) if r["st"] == "PENDING" and abs((T - r["ts"]) - limit) < EPS}
                    return must, may

                def dead_running(inv, T):
                    must, may = set(), set()
                    for i, r in enumerate(inv):
                        if r["st"] != "RUNNING" or r["owner"] is None:
                            continue
                        hb = last_hb.get(r["owner"])
                        if hb is None or (T - hb) > timeout + EPS:
                            must.add(i)
                        elif abs((T - hb) - timeout) <= EPS:
                            may.add(i)
                    return must, may

                def record_of(k, i):
                    r = apps[k].orchestrator.get_invocation_status_record(ids[k][i])
                    return (r.status.name, r.runner_id, r.timestamp.timestamp())

                for step in range(40):
                    r = rng.random()
                    clock.freeze(T)
                    pick = rng.random()
                    if r < 0.16:
                        j = rng.randrange(nrun)
                        rid = ctxs[j].runner_id
                        trail.append(["heartbeat", rid, "by-parent" if j % 2 and pick < 0.7 else "own"])
                        for a in apps.values():
                            a.orchestrator.register_runner_heartbeats([rid])
                        last_hb[rid] = T
                    elif r < 0.34:
                        j = rng.randrange(nrun)
                        trail.append(["claim", ctxs[j].runner_id])
                        for k, a in apps.items():
                            set_thread_ctx(a, ctxs[j])
                            try:
                                got = [ids[k].index(x.invocation_id) for x in a.orchestrator.get_invocations_to_run(1, ctxs[j])]
                            finally:
                                clear_thread_ctx(a)
                            for i in got:
                                M[k][i].update(st="PENDING", owner=ctxs[j].runner_id, ts=T)
                    elif r < 0.46:
                        trail.append(["start"])
                        for k, a in apps.items():
                            cand = [i for i, x in enumerate(M[k]) if x["st"] == "PENDING"]
                            if cand:
                                i = cand[int(pick * len(cand))]
                                owner = next(c for c in ctxs if c.runner_id == M[k][i]["owner"])
                                a.orchestrator.set_invocation_status(ids[k][i], InvocationStatus.RUNNING, owner)
                                M[k][i].update(st="RUNNING", ts=T)
                    elif r < 0.54:
                        trail.append(["finish"])
                        for k, a in apps.items():
                            cand = [i for i, x in enumerate(M[k]) if x["st"] == "RUNNING"]
                            if cand:
                                i = cand[int(pick * len(cand))]
                                owner = next(c for c in ctxs if c.runner_id == M[k][i]["owner"])
                                a.orchestrator.set_invocation_status(ids[k][i], InvocationStatus.SUCCESS, owner)
                                M[k][i].update(st="SUCCESS", owner=None, ts=T)
                    elif r < 0.74:
                        # advance: hit a boundary of some pending age / heartbeat age exactly, +-5us, or far away
                        targets = []
                        for k in apps:
                            for x in M[k]:
                                if x["st"] == "PENDING":
                                    targets.append(x["ts"] + limit)
                        for hb in last_hb.values():
                            targets.append(hb + timeout)
                        targets = sorted(t for t in targets if t > T and t - T < 1e7)
                        if targets and pick < 0.7:
                            T = rng.choice(targets) + rng.choice([0.0, 5e-6, -5e-6, 1e-3, -1e-3])
                        else:
                            T += rng.choice([1e-4, 0.01, 1.0, 4.9, 5.1, 599.0, 601.0, 1e5])
                        trail.append(["advance-to", T])
                    elif r < 0.86:
                        which = "pending" if pick < 0.5 else "running"
                        hooks["scans_compared"] += 1
                        trail.append(["scan", which])
                        for k, a in apps.items():
                            must, may = stuck_pending(M[k], T) if which == "pending" else dead_running(M[k], T)
                            it = a.orchestrator.get_pending_invocations_for_recovery() if which == "pending" else a.orchestrator.get_running_invocations_for_recovery()
                            got = {ids[k].index(x) for x in it}
                            wit = {"which": which, "T": T, "limit": limit, "timeout_s": timeout, "model_must": sorted(must), "model_dont_care": sorted(may), "got": sorted(got),
                                   "records": [[x["st"], x["owner"], x["ts"]] for x in M[k]], "heartbeats": last_hb, "trail": trail[-10:], "tz": case["tz"], "backend": k}
                            if got - must - may:
                                V.append({"sig": f"scan-selects-live:{which}:{k}", "what": f"{k}: {which}-recovery scan returned live invocation(s) {sorted(got - must - may)}", "witness": wit})
                            if must - got:
                                V.append({"sig": f"scan-misses-stuck:{which}:{k}", "what": f"{k}: {which}-recovery scan missed stuck invocation(s) {sorted(must - got)}", "witness": wit})
                    else:
                        which = "pending" if pick < 0.5 else "running"
                        trail.append(["recover", which])
                        hooks["recovery_runs"] += 1
                        for k, a in apps.items():
                            inv = M[k]
                            must, may = stuck_pending(inv, T) if which == "pending" else dead_running(inv, T)
                            before = [record_of(k, i) for i in range(len(inv))]
                            qbefore = queue_ids(a)
                            err = run_recovery(a, rec_ctx, which)
                            if err is not None:
                                V.append({"sig": f"recovery-raised:{which}:{k}", "what": f"{type(err).__name__}: {err}"[:300], "witness": {"trail": trail[-10:]}})
                            if must:
                                selected_any = True
                            live = set(range(len(inv))) - must - may
                            if live & {i for i, x in enumerate(inv) if x["st"] in ("PENDING", "RUNNING")}:
                                spared_any = True
                            q = queue_ids(a)
                            for i in range(len(inv)):
                                now_rec = record_of(k, i)
                                wit = {"backend": k, "which": which, "T": T, "limit": limit, "timeout_s": timeout, "before": before[i], "after": now_rec,
                                       "heartbeat_of_owner": last_hb.get(inv[i]["owner"]), "trail": trail[-10:], "tz": case["tz"]}
                                if i in must:
                                    hooks["stuck_requeued_checked"] += 1
                                    if now_rec[0] != "REROUTED" or now_rec[1] is not None or q.count(ids[k][i]) <= qbefore.count(ids[k][i]):
                                        V.append({"sig": f"stuck-not-requeued:{which}:{k}", "what": f"{k}: stuck {which} invocation is {now_rec[:2]} / queued {q.count(ids[k][i])}x after the recovery run", "witness": wit})
                                elif i in live:
                                    hooks["live_untouched_checked"] += 1
                                    if now_rec != before[i]:
                                        V.append({"sig": f"live-work-touched:{which}:{k}", "what": f"{k}: recovery changed a live invocation {before[i][:2]} -> {now_rec[:2]}", "witness": wit})
                                if now_rec[0] in ("PENDING_RECOVERY", "RUNNING_RECOVERY"):
                                    V.append({"sig": f"left-in-recovery-status:{k}", "what": f"{k}: invocation left in {now_rec[0]}", "witness": wit})
                                inv[i].update(st=now_rec[0], owner=now_rec[1], ts=now_rec[2])
                # re-queued work can be completed by another runner
                clock.freeze(T)
                for k, a in apps.items():
                    set_thread_ctx(a, surv)
                    try:
                        for _ in range(4):
                            for w in list(a.orchestrator.get_invocations_to_run(5, surv)):
                                w.run(surv)
                    finally:
                        clear_thread_ctx(a)
                    for i, x in enumerate(M[k]):
                        if x["st"] == "REROUTED":
                            st = a.orchestrator.get_invocation_status(ids[k][i]).name
                            if st != "SUCCESS":
                                V.append({"sig": f"requeued-not-completable:{k}", "what": f"{k}: re-queued invocation ends {st} after a survivor drained the queue", "witness": {"trail": trail[-12:]}})
                    flush_history(a)
                if selected_any and spared_any:
                    distinct.append(["hist", case["max_pending"], case["dead_minutes"], case["tz"], hashlib.sha1(repr(trail).encode()).hexdigest()[:12]])
    finally:
        inst.uninstall()
    hooks["race_schedules"] += 0


# ------------------------------------------------------------------------------------------- race


def run_race(case, V, hooks, distinct):
    from vlib import sched as S, shims as SH, vclock, probes, linemon
    from pynenc.invocation.status import InvocationStatus
    from pynenc.exceptions import InvocationStatusError
    from vtasks import basic
    backend, scen = case["backend"], case["scenario"]
    td = TmpDir()
    counter = {"n": 0}
    totals = Counter()
    clock = vclock.VClock(start=1_700_000_000.0)
    inst = vclock.install(clock, only=["pynenc.orchestrator.base_orchestrator", "pynenc.orchestrator.mem_orchestrator",
                                       "pynenc.orchestrator.sqlite_orchestrator", "pynenc.invocation.status", "pynenc.state_backend.base_state_backend"])

    def scenario(sc):
        counter["n"] += 1
        db = td.db(f"r{counter['n'] % 30}.sqlite")
        for ext in ("", "-wal", "-shm"):
            try:
                os.remove(db + ext)
            except FileNotFoundError:
                pass
        clock.unfreeze()
        clock.set(1_700_000_000.0 + counter["n"] * 100)

        def stamp():
            sc.yield_point("probe:boundary")
            return sc.stamp()
        log = probes.Log(stamp=stamp)
        pr = probes.install(log)
        app = make_app(backend, db, app_id=f"c04r{backend}", cached_status_time=0.0, max_pending_seconds=1.0, runner_considered_dead_after_minutes=1.0)
        task = app.task(basic.echo)
        owner = runner_ctx("ThreadRunner", "slow-owner")
        rec_ctx = runner_ctx("ThreadRunner", "recovery-runner")
        invs = [task(i).invocation_id for i in range(3)]
        set_thread_ctx(app, owner)
        claimed = [x.invocation_id for x in app.orchestrator.get_invocations_to_run(3, owner)]
        clear_thread_ctx(app)
        if scen == "running":
            for i in claimed:
                app.orchestrator.set_invocation_status(i, InvocationStatus.RUNNING, owner)
        flush_history(app)
        clock.advance(120.0)   # every claimed invocation is now over the limit / its owner never sent a heartbeat
        raised = []

        def recovery():
            err = run_recovery(app, rec_ctx, scen)
            if err is not None:
                raised.append(err)
        sc.spawn("recovery", recovery)

        def slow_owner():
            # the owner is slow, not dead: it goes on with its invocations while recovery is looking at them
            if counter["n"] % 2 == 0:
                # ... including giving one back itself (what run() does when concurrency control refuses the start)
                try:
                    app.orchestrator.reroute_invocations({claimed[0]}, owner)
                except (InvocationStatusError, KeyError):
                    pass
            for i in claimed[1:]:
                try:
                    if scen == "pending":
                        app.orchestrator.set_invocation_status(i, InvocationStatus.RUNNING, owner)
                    app.orchestrator.set_invocation_status(i, InvocationStatus.SUCCESS, owner)
                except (InvocationStatusError, KeyError):
                    pass
        sc.spawn("owner", slow_owner)

        def fin():
            pr.uninstall()
            flush_history(app)
            q = queue_ids(app)
            out = []
            taken = [e["inv"] for e in log.events if e["kind"] == "set_status" and e["ok"] and e["req"] in ("PENDING_RECOVERY", "RUNNING_RECOVERY")]
            moved_between = bool(raised) or any(e["kind"] == "set_status" and e["runner"] == "slow-owner" and e["ok"] for e in log.events)
            totals["owner_moved"] += 1 if moved_between else 0
            for i in invs:
                rec = app.orchestrator.get_invocation_status_record(i)
                wit = {"backend": backend, "scenario": scen, "status": rec.status.name, "owner": rec.runner_id, "queued": q.count(i), "recovery_raised": [type(e).__name__ for e in raised],
                       "taken_by_recovery": [t[:8] for t in taken]}
                if rec.status.name in ("PENDING_RECOVERY", "RUNNING_RECOVERY"):
                    out.append((f"left-in-recovery-status:lost-race", f"recovery lost a race ({[type(e).__name__ for e in raised]}) and left invocation {i[:8]} in {rec.status.name}, not re-queued", wit))
                elif i in taken and not rec.status.is_final() and not (rec.status.name in ("REROUTED",) and q.count(i) >= 1) and rec.status.name not in ("PENDING", "RUNNING"):
                    out.append(("taken-but-not-requeued:lost-race", f"invocation {i[:8]} was taken by recovery and is now {rec.status.name}, queued {q.count(i)}x", wit))
                elif rec.status.name == "REROUTED" and q.count(i) == 0:
                    out.append(("rerouted-but-not-queued:lost-race", f"invocation {i[:8]} is REROUTED but not in the queue", wit))
            totals["runs"] += 1
            return out[:6] or None
        return fin

    shims = SH.Shims() if backend == "mem" else SH.Shims(threading_modules=["pynenc.state_backend.base_state_backend"], time_modules=["pynenc.util.sqlite_utils"])
    lines = (linemon.MEM_ORCH + ["pynenc.core_tasks:recover_pending_invocations.func", "pynenc.core_tasks:recover_running_invocations.func",
                                 "pynenc.orchestrator.base_orchestrator:BaseOrchestrator.reroute_invocations"]) if backend == "mem" else None
    try:
        res = S.explore(scenario, strategy=case["strategy"], max_preemptions=case.get("p", 2), n=case.get("count", 50), seed=case["seed"],
                        sql=(backend == "sqlite"), lines=lines, shims=shims, max_steps=8000, time_budget=case.get("budget"))
    finally:
        inst.uninstall()
        td.close()
    hooks["race_schedules"] += res["schedules"]
    hooks["race_owner_moved"] += totals["owner_moved"]
    for k in ("scans_compared", "recovery_runs", "stuck_requeued_checked", "live_untouched_checked"):
        hooks[k] += 0
    if totals["owner_moved"]:
        for s_ in res["signatures_nontrivial"]:
            distinct.append(["race", backend, scen, s_])
    for r in res["results"]:
        base = {"backend": backend, "choices": r["choices"], "trace_tail": r["trace"][-30:]}
        if r.get("deadlock"):
            V.append({"sig": f"deadlock:{backend}", "what": "every live actor is blocked", "witness": base})
        if r.get("error"):
            V.append({"sig": f"harness-error:{backend}", "what": r["error"][:400], "witness": base})
        for sig, what, wit in (r.get("out") or []):
            V.append({"sig": f"{sig}:{scen}:{backend}", "what": what, "witness": {**wit, **base}})
    return res.get("inconclusive")


def run_parentloop(case, V, hooks, distinct):
    """BaseRunner.run() of a parent with stand-in worker processes, one loop iteration per virtual second; after every iteration another runner
    scans for dead-owner RUNNING work: the invocation RUNNING under an alive child must never be listed, the one under the dead child must be"""
    from checks import c14
    from vlib import vclock
    from vtasks import basic
    from pynenc.invocation.status import InvocationStatus
    import pynenc.runner.multi_thread_runner as mtr
    import pynenc.runner.persistent_process_runner as ppr
    clock = vclock.VClock(start=1_700_000_000.0, tick=0.0)
    inst = vclock.install(clock)
    patch = c14.Patched(cpu=2)
    try:
        with TmpDir() as td:
            conf = dict(cached_status_time=0.0, runner_considered_dead_after_minutes=case["dead_minutes"], runner_loop_sleep_time_sec=0.0)
            if case["parent"] == "mtr":
                conf.update(runner_cls="MultiThreadRunner", min_processes=2, max_processes=2, enforce_max_processes=True)
            else:
                conf.update(runner_cls="PersistentProcessRunner", num_processes=2)
            app = make_app(case["backend"], td.db(), app_id=f"c04p{case['backend']}{case['parent']}", **conf)
            task = app.task(basic.echo)
            parent = (mtr.MultiThreadRunner if case["parent"] == "mtr" else ppr.PersistentProcessRunner)(app)
            scanner = runner_ctx("ThreadRunner", "scanning-runner")
            state = {"n": 0, "alive_inv": None, "dead_inv": None, "dead_since": None, "dead_listed_at": None}
            real_iter = parent.runner_loop_iteration
            limit = max(40, int(case["dead_minutes"] * 60 * 2.5) + 10)

            def one_iteration():
                orch = app.orchestrator
                if state["n"] == 0:
                    # two tracked workers; each owns one RUNNING invocation; the second one dies now
                    ids = list(parent.child_runner_ids)
                    for slot, cid in zip(("alive_inv", "dead_inv"), ids[:2]):
                        cctx = runner_ctx("Worker", cid, parent=parent.runner_context)
                        inv = task(slot)
                        orch.set_invocation_status(inv.invocation_id, InvocationStatus.PENDING, cctx)
                        orch.set_invocation_status(inv.invocation_id, InvocationStatus.RUNNING, cctx)
                        state[slot] = inv.invocation_id
                    orch.register_runner_heartbeats([ids[1]])
                    parent.child_runner_ids[ids[1]].die(-9)
                    state["dead_since"] = clock.peek()
                real_iter()
                state["n"] += 1
                clock.advance(1.0)
                orch.register_runner_heartbeats([scanner.runner_id])
                listed = set(orch.get_running_invocations_for_recovery())
                hooks["scans_compared"] += 1
                hooks["live_untouched_checked"] += 1
                if state["alive_inv"] in listed:
                    V.append({"sig": f"scan-selects-live:child-of-looping-parent:{case['parent']}:{case['backend']}",
                              "what": f"after {state['n']} loop iterations (1 s each, dead-after {case['dead_minutes']} min) the running-recovery scan lists the invocation of an ALIVE worker of a looping parent",
                              "witness": {"case": case, "iteration": state["n"]}})
                    parent.running = False
                if state["dead_inv"] in listed and state["dead_listed_at"] is None:
                    state["dead_listed_at"] = clock.peek() - state["dead_since"]
                if state["n"] >= limit:
                    parent.running = False
            parent.runner_loop_iteration = one_iteration
            import warnings
            with warnings.catch_warnings():
                warnings.simplefilter("ignore")
                parent.run()
            hooks["recovery_runs"] += 0
            hooks["race_schedules"] += state["n"]
            hooks["stuck_requeued_checked"] += 1
            if state["dead_listed_at"] is None:
                V.append({"sig": f"scan-misses-stuck:dead-child-of-looping-parent:{case['parent']}:{case['backend']}",
                          "what": f"the invocation of a worker that died {limit} s ago (dead-after {case['dead_minutes']} min) was never listed by the running-recovery scan", "witness": {"case": case}})
            distinct.append(["parentloop", case["backend"], case["parent"], case["dead_minutes"], state["n"]])
    finally:
        patch.close()
        inst.uninstall()


def run_case(case):
    hooks = Counter()
    V, distinct = [], []
    inconc = None
    if case["kind"] == "parentloop":
        run_parentloop(case, V, hooks, distinct)
    elif case["kind"] == "hist":
        run_hist(case, V, hooks, distinct)
    else:
        inconc = run_race(case, V, hooks, distinct)
    seen, out = Counter(), []
    for v in V:
        seen[v["sig"]] += 1
        if seen[v["sig"]] <= 2:
            out.append(v)
    return {"violations": out, "distinct": distinct, "hooks": dict(hooks), "events": sum(hooks.values()), "evaluations": case.get("n", 0) + hooks["race_schedules"],
            "sample": case if case["id"] % 6 == 0 else None, "inconclusive": inconc}
