"""C18 - workflow operations replay deterministically and never mix between workflows.

Scripted bodies (an argument encodes the sequence of wf operations) are executed through the real ThreadRunner in the
runner simulation; re-execution by retry (same process), by replay in a fresh process image (fork, sqlite), with the same
task running for several workflows sequentially (1 slot) and concurrently (2-3 slots).  Oracle: equality across attempts
keyed by (workflow, operation, n); one sub-invocation per (workflow, call); recorded workflow data of A equals what A observed
and differs from B's.
"""
from __future__ import annotations

import json
import os
import random
from collections import Counter, defaultdict

PID = "C18"
LEVEL = "exploration"
RULE = ("scripts of 1-8 wf operations (random / time / uuid / sub-task) x re-execution kinds (retry k times in the same process; replay in a forked "
        "process; alone / with 1-2 other workflows of the same task, sequentially and concurrently) x both state backends; "
        "distinct = (script shape, re-execution kind, number of neighbour workflows, slots, backend)")
ASSUMPTIONS = [
    "only the workflow's main task issues wf operations in the scripts (sub-tasks are plain leaves)",
    "a re-execution is a new run of the invocation fetched again from the state backend, as every runner does",
]
REQUIRED_HOOKS = ["workflows_run", "attempt_pairs_compared", "subtask_launch_counts_checked", "cross_workflow_checks", "sub_workflows_observed"]


def WORKERS(tier):
    return 14


def TIMEOUT(tier):
    return 900 if tier == "quick" else 5400


def gen_cases(tier, seed):
    thorough = tier == "thorough"
    cases = []
    n = 1200 if thorough else 40
    per = 25 if thorough else 4
    for i in range(n // per):
        for backend in ("mem", "sqlite"):
            cases.append({"kind": "sim", "backend": backend, "seed": seed * 90001 + i, "n": per, "seeds": 10 if thorough else 1})
    for i in range(8 if thorough else 2):
        cases.append({"kind": "fork", "seed": seed * 90001 + 500 + i, "n": 30 if thorough else 6})
    return cases


def gen_script(rng, child_ok=True):
    ops = []
    for _ in range(rng.randint(1, 8)):
        r = rng.random()
        if child_ok and r < 0.07 and ops:
            # a sub-workflow (task with force_new_workflow) started from this one; it asks for the same kinds of things as its parent did
            ops.append(["child", gen_script(rng, child_ok=False) if rng.random() < 0.5 else [o for o in ops if not (isinstance(o, list) and o[0] == "child")], rng.choice([0, 0, 1])])
            child_ok = False
        elif r < 0.3:
            ops.append("random")
        elif r < 0.5:
            ops.append("time")
        elif r < 0.7:
            ops.append("uuid")
        else:
            ops.append([rng.choice(["sub", "sub", "sub2"]), rng.choice([0, 1, 2, -1])])
    return ops


def script_shape(s):
    return "".join(o[0] if isinstance(o, str) else {"sub": "s", "sub2": "S"}.get(o[0], "C") for o in s)


def judge_records(records, scripts, app, V, hooks, wit_base):
    """records: {(wid, inv, attempt): [[op, value...]]}; scripts: {inv: script}"""
    by_wf = defaultdict(dict)
    for (wid, inv, n), seen in records.items():
        by_wf[(wid, inv)][n] = seen
    # 1. equality across attempts
    for (wid, inv), attempts in by_wf.items():
        ns = sorted(attempts)
        first = attempts[ns[0]]
        for n in ns[1:]:
            hooks["attempt_pairs_compared"] += 1
            other = attempts[n]
            for k in range(min(len(first), len(other))):
                if first[k] != other[k]:
                    op = first[k][0]
                    V.append({"sig": f"replay-differs:{op}", "what": f"workflow {wid[:8]}: operation #{k + 1} ({op}) returned {first[k][1:]} on attempt {ns[0]} and {other[k][1:]} on attempt {n}",
                              "witness": {**wit_base, "attempts": {str(a): attempts[a] for a in ns}}})
                    break
    # 2. one launch per (workflow, identical call); later executions get the recorded invocation
    from vtasks import wf
    for (wid, inv), attempts in by_wf.items():
        per_call = defaultdict(set)
        for seen in attempts.values():
            for rec in seen:
                if rec[0] in ("sub", "sub2"):
                    per_call[(rec[0], rec[1])].add(rec[2])
                    want = "leaf" if rec[0] == "sub" else "leaf2"
                    if len(rec) > 3 and rec[3] != want:
                        V.append({"sig": "subtask-of-another-task-returned", "what": f"workflow {wid[:8]}: execute_task({want}, {rec[1]}) returned an invocation of task {rec[3]}", "witness": wit_base})
        for x, ids in per_call.items():
            hooks["subtask_launch_counts_checked"] += 1
            if len(ids) > 1:
                V.append({"sig": "subtask-launched-more-than-once", "what": f"workflow {wid[:8]}: sub-task {x} was launched {len(ids)} times across executions", "witness": {**wit_base, "ids": sorted(ids)}})
        calls = list(per_call.items())
        for i_ in range(len(calls)):
            for j_ in range(i_ + 1, len(calls)):
                if calls[i_][1] & calls[j_][1]:
                    V.append({"sig": "different-calls-share-one-sub-invocation", "what": f"workflow {wid[:8]}: the calls {calls[i_][0]} and {calls[j_][0]} were handed the same invocation", "witness": wit_base})
    # 3. values of different workflows never mix
    for (wid, inv), attempts in by_wf.items():
        try:
            if app.state_backend.get_invocation(inv).workflow.parent_workflow_id:
                hooks["sub_workflows_observed"] += 1
        except Exception:
            pass
    firsts = {}
    for (wid, inv), attempts in by_wf.items():
        firsts[wid] = attempts[sorted(attempts)[0]]
    wids = sorted(firsts)
    for i in range(len(wids)):
        for j in range(i + 1, len(wids)):
            hooks["cross_workflow_checks"] += 1
            a, b = firsts[wids[i]], firsts[wids[j]]
            ra = [r[1] for r in a if r[0] in ("random", "uuid")]
            rb = [r[1] for r in b if r[0] in ("random", "uuid")]
            common = set(map(str, ra)) & set(map(str, rb))
            sa = {r[2] for r in a if r[0] in ("sub", "sub2")}
            sb_ = {r[2] for r in b if r[0] in ("sub", "sub2")}
            if sa & sb_:
                V.append({"sig": "workflows-share-sub-invocation", "what": f"workflows {wids[i][:8]} and {wids[j][:8]} were handed the same sub-task invocation {sorted(sa & sb_)[0][:8]} (each workflow launches its own)", "witness": wit_base})
            if common:
                V.append({"sig": "workflows-share-values", "what": f"workflows {wids[i][:8]} and {wids[j][:8]} observed the same random/uuid value(s) {sorted(common)[:2]}", "witness": wit_base})
    # 4. recorded workflow data of a workflow equals what it observed
    for (wid, inv), attempts in by_wf.items():
        try:
            ident = app.state_backend.get_invocation(inv).workflow
        except Exception:
            continue
        seen = attempts[sorted(attempts)[0]]
        counters = Counter()
        for rec in seen:
            if rec[0] in ("random", "time", "uuid"):
                counters[rec[0]] += 1
                stored = app.state_backend.get_workflow_data(ident, f"{rec[0]}:{counters[rec[0]]}")
                hooks["cross_workflow_checks"] += 1
                if stored != rec[1]:
                    V.append({"sig": f"recorded-data-differs:{rec[0]}", "what": f"workflow {wid[:8]}: observed {rec[0]} #{counters[rec[0]]} = {rec[1]!r} but its workflow data holds {stored!r}",
                              "witness": wit_base})


def run_sim(case, V, hooks, distinct):
    from vlib import runner_sim
    from vtasks import wf
    rng = random.Random(case["seed"])
    inconc = None
    for n in range(case["n"]):
        nwf = rng.choice([1, 2, 3])
        slots = rng.choice([1, 2, 3])
        scripts = [gen_script(rng) for _ in range(nwf)]
        fails = [rng.choice([0, 1, 2]) for _ in range(nwf)]
        for sk in range(case["seeds"]):
            wf.RECORD.clear()
            wf.ATTEMPT.clear()
            sim = runner_sim.Sim(case["backend"], slots=slots, strategy="random", seed=case["seed"] * 13 + n * 5 + sk, max_steps=60000)
            roots = []

            def build(s):
                app = s.make_app()
                t = app.task(wf.scripted, max_retries=3)
                app.task(wf.scripted_child, max_retries=3, force_new_workflow=True)
                app.task(wf.leaf)
                app.task(wf.leaf2)
                for i in range(nwf):
                    roots.append(t(scripts[i], fails[i], f"w{i}"))
                s.roots = roots
                return None

            def client(s, sc, result):
                orch = s.app.orchestrator
                for _ in range(200000):
                    if all(orch.get_invocation_status(i).is_final() for i in s.known_ids()):
                        break
                    sc.yield_point("sleep")
                result["roots_final_at"] = sc.step
                s.runner.stop_runner_loop()
            try:
                out = sim.run(build, client=client)
                res = out["result"]
                expected_failure = bool(out["error"]) and "leaf" in out["error"] and "fails" in out["error"]   # the failing leaf's own exception leaving its thread
                if "roots_final_at" not in res or (out["error"] and not expected_failure):
                    if out["error"] and not expected_failure:
                        V.append({"sig": "harness-error", "what": out["error"][:400], "witness": {"scripts": scripts}})
                    else:
                        inconc = f"simulation hit the step bound ({out['steps']})"
                    continue
                hooks["workflows_run"] += nwf
                wit_base = {"backend": case["backend"], "scripts": scripts, "fail_until": fails, "slots": slots, "workflows": nwf}
                judge_records(dict(wf.RECORD), None, sim.app, V, hooks, wit_base)
                for i in range(nwf):
                    distinct.append([script_shape(scripts[i]), f"retry{fails[i]}", nwf - 1, slots, case["backend"]])
            finally:
                sim.close()
    return inconc


def run_fork(case, V, hooks, distinct):
    """attempt 1 in a forked process image, attempt 2 in this one (fresh in-process state), sqlite backends"""
    from vlib.apps import TmpDir, make_app, runner_ctx, set_thread_ctx, clear_thread_ctx, flush_history
    from vtasks import wf
    rng = random.Random(case["seed"])
    with TmpDir() as td:
        for n in range(case["n"]):
            script = gen_script(rng)
            db = td.db(f"f{n}.sqlite")
            app_id = f"c18f{os.getpid()}_{n}"
            app = make_app("sqlite", db, app_id=app_id, cached_status_time=0.0)
            t = app.task(wf.scripted, max_retries=3)
            app.task(wf.scripted_child, max_retries=3, force_new_workflow=True)
            app.task(wf.leaf)
            app.task(wf.leaf2)
            inv = t(script, 1, "fork")
            other = t(gen_script(rng), 0, "other")  # a neighbour workflow executed first in the replaying process
            flush_history(app)
            rec_path = os.path.join(td.path, f"rec{n}.json")
            pid = os.fork()
            if pid == 0:
                code = 0
                try:
                    wf.RECORD.clear(); wf.ATTEMPT.clear()
                    ctx = runner_ctx("W", "forked-worker")
                    capp = make_app("sqlite", db, app_id=app_id, cached_status_time=0.0)
                    capp.task(wf.scripted, max_retries=3); capp.task(wf.scripted_child, max_retries=3, force_new_workflow=True); capp.task(wf.leaf); capp.task(wf.leaf2)
                    set_thread_ctx(capp, ctx)
                    for w in list(capp.orchestrator.get_invocations_to_run(1, ctx)):
                        try:
                            w.run(ctx)
                        except Exception:
                            pass
                    flush_history(capp)
                    json.dump([[list(k), v] for k, v in wf.RECORD.items()], open(rec_path, "w"))
                except BaseException:
                    code = 3
                os._exit(code)
            os.waitpid(pid, 0)
            if not os.path.exists(rec_path):
                V.append({"sig": "harness-error", "what": "forked attempt produced no record", "witness": {"script": script}})
                continue
            first = {tuple(k): v for k, v in json.load(open(rec_path))}
            # attempt 2 (and the neighbour) in this process
            wf.RECORD.clear(); wf.ATTEMPT.clear()
            ctx = runner_ctx("W", "replaying-worker")
            set_thread_ctx(app, ctx)
            try:
                for _ in range(4):
                    for w in list(app.orchestrator.get_invocations_to_run(2, ctx)):
                        try:
                            w.run(ctx)
                        except Exception:
                            pass
            finally:
                clear_thread_ctx(app)
            flush_history(app)
            merged = dict(first)
            for (wid, i, a), v in wf.RECORD.items():
                merged[(wid, i, a + (1 if i == inv.invocation_id else 0))] = v   # the forked attempt was #1
            hooks["workflows_run"] += 2
            judge_records(merged, None, app, V, hooks, {"backend": "sqlite", "script": script, "kind": "fresh-process-replay"})
            distinct.append([script_shape(script), "fork-replay", 1, 1, "sqlite"])


def run_case(case):
    hooks = Counter()
    V, distinct = [], []
    inconc = None
    if case["kind"] == "sim":
        inconc = run_sim(case, V, hooks, distinct)
    else:
        run_fork(case, V, hooks, distinct)
    seen, out = Counter(), []
    for v in V:
        seen[v["sig"]] += 1
        if seen[v["sig"]] <= 2:
            out.append(v)
    dset = {tuple(map(str, d)) for d in distinct}
    return {"violations": out, "distinct": [list(d) for d in dset], "hooks": dict(hooks), "events": sum(hooks.values()), "evaluations": hooks["workflows_run"],
            "sample": case if case["id"] % 5 == 0 else None, "inconclusive": inconc}
