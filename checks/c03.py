"""C03 - no accepted invocation is lost when a process dies at any step.

Crash enumeration on the SQLite stack: for every role (client single / batch, runner claim incl. the concurrency-controlled
and blocking branches, worker run: success / failure / retry / not authorised, kill-and-reroute, pending recovery task,
running recovery task) the role's real code runs in a forked process that dies (os._exit) right after its k-th durable
backend effect (committed writing transaction), for every k, with and without a heartbeat of the dying runner; the fault-free
execution is included.  Then the parent moves the virtual clock past max_pending_seconds and the heartbeat timeout, runs the
real recovery tasks under a survivor's context and steps the survivor (get_invocations_to_run -> run) to a fixpoint.
Oracle: every accepted invocation is final and its body completed at least once.  The state at the crash instant (status,
owner, queued?) names the window.
"""
from __future__ import annotations

import json
import os
import signal
import time as _rt
from collections import Counter

from vlib.apps import TmpDir, make_app, runner_ctx, set_thread_ctx, clear_thread_ctx, flush_history, queue_ids

PID = "C03"
LEVEL = "fault_enumeration"
RULE = ("roles x scenarios (client single call, client batch / non-batch parallelize, runner claim: plain / concurrency-controlled reroute / blocking branch, "
        "worker run: ok / terminal failure / retry / not authorised -> reroute, kill-and-reroute, pending recovery task, running recovery task) x dying runner with / "
        "without heartbeat x EVERY crash point k = after the k-th durable backend effect of the role's main thread (k = 1..N, N measured on the fault-free run) + the "
        "fault-free run; each followed by recovery (clock past both timeouts) and a drain to fixpoint by a survivor; thorough adds double faults (the recovering "
        "process dies at each of its own effects) and several invocation mixes; distinct = (role, scenario, effect before the crash, state at the crash)")
ASSUMPTIONS = [
    "SQLite stack (a process crash destroys the whole in-memory system: nothing is left to recover); one process dies per run (thorough: also the first recovering process)",
    "a backend effect = a committed transaction containing at least one INSERT/UPDATE/DELETE issued through pynenc's SQLiteConnection wrapper",
    "survivors are stepped sequentially (claim, then run) - concurrency between survivors is C02/C04/C06 territory",
    "crash points are enumerated on the main thread of the dying process; the asynchronous history writer threads die with it wherever they are",
]
REQUIRED_HOOKS = ["crash_runs", "fault_free_runs", "recoveries", "accepted_checked", "effects_enumerated"]

APP_ID = "c03app"
CONF = dict(cached_status_time=0.0, max_pending_seconds=5.0, runner_considered_dead_after_minutes=1.0)


def WORKERS(tier):
    return 14


def TIMEOUT(tier):
    return 900 if tier == "quick" else 5400


def EXHAUSTIVE(tier):
    return True


SCENARIOS = [
    # (role, scenario)
    ("client", "single"), ("client", "batch"), ("client", "nobatch"),
    ("claim", "plain"), ("claim", "cc"), ("claim", "ccretry"), ("claim", "blocking"),
    ("run", "ok"), ("run", "fail"), ("run", "retry"), ("run", "cc"),
    ("kill", "running"),
    ("ppr", "plain"), ("ppr", "cc"),          # the real PersistentProcessRunner worker loop (persistent_process_main) for a bounded number of polls
    ("run", "pprchild"),                      # the dying runner is a pool worker of a live PersistentProcessRunner parent that prunes and replaces it
    ("run", "child"),                         # the dying runner is a worker process of a live MultiThreadRunner parent that keeps reporting its children
    ("recover", "pending"), ("recover", "running"),
]


def gen_cases(tier, seed):
    cases = []
    for role, scn in SCENARIOS:
        for hb in (0, 1):
            if role == "client" and hb:
                continue
            cases.append({"role": role, "scenario": scn, "hb": hb, "double": False, "mix": 0})
    # two same-key invocations blocked in one poll: the only place where one reroute_invocations call handles a batch
    cases.append({"role": "claim", "scenario": "cc", "hb": 1, "double": False, "mix": 1})
    cases.append({"role": "ppr", "scenario": "cc", "hb": 1, "double": False, "mix": 1})
    if tier == "thorough":
        for role, scn in SCENARIOS:
            for mix in (1, 2):
                cases.append({"role": role, "scenario": scn, "hb": mix % 2, "double": False, "mix": mix})
            if role != "client":
                cases.append({"role": role, "scenario": scn, "hb": 1, "double": True, "mix": 0})
    return cases


# ------------------------------------------------------------------------------------------ world


def build_app(db):
    from pynenc.conf.config_task import ConcurrencyControlType
    from vtasks import crash
    app = make_app("sqlite", db, app_id=APP_ID, **CONF)
    tasks = {
        "work": app.task(crash.work, max_retries=2),
        "keyed": app.task(crash.keyed, running_concurrency=ConcurrencyControlType.KEYS, key_arguments=("k",), reroute_on_concurrency_control=True),
    }
    app.broker, app.orchestrator, app.state_backend  # noqa
    return app, tasks


def claim(app, ctx, n):
    set_thread_ctx(app, ctx)
    try:
        return list(app.orchestrator.get_invocations_to_run(n, ctx))
    finally:
        clear_thread_ctx(app)


def setup(case, db):
    """the world before the doomed process acts; returns the state handed to the child"""
    from pynenc.invocation.status import InvocationStatus
    app, tasks = build_app(db)
    orch = app.orchestrator
    S, R, D = runner_ctx("ThreadRunner", "survivor"), runner_ctx("ThreadRunner", "doomed"), runner_ctx("ThreadRunner", "dead-long-ago")
    role, scn, mix = case["role"], case["scenario"], case["mix"]
    accepted = {}     # id -> key
    st = {"finish_by_survivor": [], "targets": []}

    def submit(key, mode="ok"):
        inv = tasks["work"](key, mode)
        accepted[inv.invocation_id] = key
        return inv

    def submit_keyed(key, k):
        inv = tasks["keyed"](key, k)
        accepted[inv.invocation_id] = key
        return inv

    set_thread_ctx(app, S)
    try:
        if case["hb"]:
            orch.register_runner_heartbeats([R.runner_id])
            orch.register_runner_heartbeats([D.runner_id])
        if role == "client":
            submit("by")
        elif (role, scn) == ("claim", "plain"):
            submit("by"); submit("a", "ok"); submit("b", "fail"); submit("c", "retry")
            if mix:
                submit("d", "retry" if mix == 1 else "fail")
        elif (role, scn) in (("claim", "cc"), ("run", "cc")):
            if (role, scn) == ("run", "cc"):
                # two invocations with the same key both claimed (the state a check-then-act race between two pollers leaves - C06):
                # x1 PENDING by the doomed runner, x0 RUNNING by the survivor
                x1 = submit_keyed("x1", 1)
                app.broker.retrieve_invocation()
                orch.set_invocation_status(x1.invocation_id, InvocationStatus.PENDING, R)
                st["targets"] = [x1.invocation_id]
                x0 = submit_keyed("x0", 1)
                app.broker.retrieve_invocation()
                orch.set_invocation_status(x0.invocation_id, InvocationStatus.PENDING, S)
                orch.set_invocation_status(x0.invocation_id, InvocationStatus.RUNNING, S)
                submit("by")
            else:
                x0 = submit_keyed("x0", 1)
                claim(app, S, 1)
                orch.set_invocation_status(x0.invocation_id, InvocationStatus.RUNNING, S)
                submit("by"); submit_keyed("x1", 1)
                if mix:
                    submit_keyed("x2", 1 if mix == 1 else 2)
            st["finish_by_survivor"] = [x0.invocation_id]
        elif (role, scn) == ("claim", "ccretry"):
            # the blocked invocation is a RETRY one (it ran once under the survivor and asked for a retry); x0 holds the key meanwhile
            x1 = submit_keyed("x1", 1)
            claim(app, S, 1)
            orch.set_invocation_status(x1.invocation_id, InvocationStatus.RUNNING, S)
            x0 = submit_keyed("x0", 1)
            orch.set_invocation_retry(x1.invocation_id, RuntimeError("again"), S)
            claim(app, S, 1)
            orch.set_invocation_status(x0.invocation_id, InvocationStatus.RUNNING, S)
            submit("by")
            if mix:
                submit_keyed("x2", 1 if mix == 1 else 2)
            st["finish_by_survivor"] = [x0.invocation_id]
        elif (role, scn) == ("claim", "blocking"):
            w = submit("w")
            claim(app, S, 1)
            orch.set_invocation_status(w.invocation_id, InvocationStatus.RUNNING, S)
            x = submit("x"); submit("by")
            if mix:
                submit("y", "retry")
            orch.waiting_for_results(w.invocation_id, [x.invocation_id])
            st["finish_by_survivor"] = [w.invocation_id]
        elif (role, scn) == ("ppr", "plain"):
            submit("by"); submit("a", "ok"); submit("c", "retry")
            if mix:
                submit("d", "fail")
            st["polls"] = 7 + mix
        elif (role, scn) == ("ppr", "cc"):
            b1 = submit_keyed("b1", 1)
            claim(app, S, 1)
            orch.set_invocation_status(b1.invocation_id, InvocationStatus.RUNNING, S)
            submit_keyed("g2", 1); submit("p", "ok")
            if mix:
                submit_keyed("g3", 1 if mix == 1 else 2)
            st["finish_by_survivor"] = [b1.invocation_id]
            st["polls"] = 2 + mix
        elif role == "run":
            inv = submit("t", {"ok": "ok", "fail": "fail", "retry": "retry", "child": "ok", "pprchild": "ok"}[scn])
            got = claim(app, R, 1)
            st["targets"] = [i.invocation_id for i in got]
            submit("by")
            if mix:
                submit("m", "retry" if mix == 1 else "ok")
        elif role == "kill":
            inv = submit("t")
            claim(app, R, 1)
            orch.set_invocation_status(inv.invocation_id, InvocationStatus.RUNNING, R)
            st["targets"] = [inv.invocation_id]
            submit("by")
        elif role == "recover":
            invs = [submit("t1"), submit("t2")] + ([submit("t3")] if mix else [])
            claim(app, D, len(invs))
            if scn == "running":
                for i in invs:
                    orch.set_invocation_status(i.invocation_id, InvocationStatus.RUNNING, D)
            submit("by")
            st["advance_before_child"] = 600.0
    finally:
        clear_thread_ctx(app)
    flush_history(app)
    st["accepted"] = accepted
    return app, tasks, st, (S, R, D)


# ------------------------------------------------------------------------------------------ the doomed process


def child_main(case, db, st, crash_at, report_path, as_recoverer=False):
    """runs in the forked process; never returns"""
    from vlib import sqlhook
    fd = os.open(report_path, os.O_WRONLY | os.O_APPEND | os.O_CREAT, 0o600)
    main_thread = __import__("threading").get_ident()

    def report(obj):
        os.write(fd, (json.dumps(obj) + "\n").encode())

    def on_effect(n, labels):
        if __import__("threading").get_ident() != main_thread:
            return
        cnt[0] += 1
        report({"effect": cnt[0], "labels": labels})
        if crash_at is not None and cnt[0] >= crash_at:
            report({"crashed_after": cnt[0], "labels": labels})
            os._exit(17)
    cnt = [0]
    code = 0
    try:
        app, tasks = build_app(db)
        R = runner_ctx("ThreadRunner", "doomed" if not as_recoverer else "recoverer-1")
        if as_recoverer or case["role"] == "recover":
            app.orchestrator.register_runner_heartbeats([R.runner_id])
        sqlhook.install(mode="count", on_effect=on_effect)
        role, scn = case["role"], case["scenario"]
        set_thread_ctx(app, R)
        if as_recoverer:
            from pynenc import core_tasks
            core_tasks.recover_pending_invocations.func()
            core_tasks.recover_running_invocations.func()
            for inv in list(app.orchestrator.get_invocations_to_run(5, R)):
                try:
                    inv.run(R)
                except Exception:
                    pass
        elif role == "client":
            if scn == "single":
                inv = tasks["work"]("c1", "ok")
                report({"accepted": inv.invocation_id, "key": "c1"})
            else:
                t = tasks["work"]
                if scn == "nobatch":
                    t.conf.parallel_batch_size = 0
                params = [(f"p{i}", "ok") for i in range(3 + case["mix"])]
                group = t.parallelize(params)
                for inv in group.invocations:
                    report({"accepted": inv.invocation_id, "key": inv.arguments.kwargs["key"]})
        elif role == "claim":
            got = list(app.orchestrator.get_invocations_to_run(3 if scn != "blocking" else 2, R))
            report({"claimed": [i.invocation_id for i in got]})
        elif role == "run":
            for iid in st["targets"]:
                inv = app.state_backend.get_invocation(iid)
                try:
                    inv.run(R)
                except Exception as e:
                    report({"run_raised": type(e).__name__})
        elif role == "kill":
            for iid in st["targets"]:
                app.runner._kill_and_reroute(iid, R)
        elif role == "ppr":
            from pynenc.runner import persistent_process_runner as ppr

            class BoundedStop:
                """stand-in for the multiprocessing Event: set after a bounded number of polls"""
                def __init__(self, polls):
                    self.left, self.flag = polls, False
                def is_set(self):
                    self.left -= 1
                    return self.flag or self.left < 0
                def set(self):
                    self.flag = True
            clear_thread_ctx(app)
            parent = runner_ctx("PersistentProcessRunner", "ppr-parent")
            ppr.persistent_process_main(app, runner_cache={}, stop_event=BoundedStop(st["polls"]), parent_runner_ctx_json=parent.to_json(), child_runner_id="doomed")
        elif role == "recover":
            from pynenc import core_tasks
            (core_tasks.recover_pending_invocations if scn == "pending" else core_tasks.recover_running_invocations).func()
        flush_history(app)
        report({"done": True, "effects": cnt[0]})
    except BaseException as e:  # noqa
        report({"child_error": f"{type(e).__name__}: {e}"[:300]})
        code = 3
    os._exit(code)


def fork_run(fn, *a, timeout=300.0):
    pid = os.fork()
    if pid == 0:
        try:
            fn(*a)
        finally:
            os._exit(4)
    t0 = _rt.time()
    while True:
        p, status = os.waitpid(pid, os.WNOHANG)
        if p:
            return os.waitstatus_to_exitcode(status)
        if _rt.time() - t0 > timeout:
            os.kill(pid, signal.SIGKILL)
            os.waitpid(pid, 0)
            return None
        _rt.sleep(0.005)


def read_report(path):
    out = []
    try:
        with open(path) as f:
            for line in f:
                try:
                    out.append(json.loads(line))
                except ValueError:
                    pass
    except FileNotFoundError:
        pass
    return out


# ------------------------------------------------------------------------------------------ recovery and verdict


def snapshot(app, ids):
    q = queue_ids(app)
    out = {}
    for i in ids:
        try:
            rec = app.orchestrator.get_invocation_status_record(i)
            out[i] = (rec.status.name, rec.runner_id, q.count(i))
        except KeyError:
            out[i] = ("<no status record>", None, q.count(i))
    return out


def make_parent(app, dead_child_id, kind="mtr"):
    """a real MultiThreadRunner / PersistentProcessRunner parent (alive, in the survivor process) whose worker processes are stand-ins:
    the doomed one, tracked under its runner id, has just died"""
    from checks import c14
    import pynenc.runner.multi_thread_runner as mtr
    import pynenc.runner.persistent_process_runner as ppr
    patch = c14.Patched(cpu=2)
    parent = (mtr.MultiThreadRunner if kind == "mtr" else ppr.PersistentProcessRunner)(app)
    parent.running = True
    parent._on_start()
    if kind == "mtr":
        dead = c14.FakeProcess(); dead.start(); dead.die(-9)
        live = c14.FakeProcess(); live.start()
        parent.child_runner_ids.clear()
        parent.child_runner_ids[dead_child_id] = dead
        parent.child_runner_ids["live-child"] = live
    else:
        # one of the pool's workers is the doomed runner: re-key its tracking entry to the doomed id, then it dies
        first = next(iter(parent.child_runner_ids))
        proc = parent.child_runner_ids.pop(first)
        parent.child_runner_ids[dead_child_id] = proc
        proc.die(-9)
    return parent, patch


def recover_and_drain(app, S, st, clock, hooks, rounds=3, parent=None):
    from pynenc import core_tasks
    from vtasks import crash
    errors = []
    orch = app.orchestrator
    for rnd in range(rounds):
        for _ in range(10):
            # time passes in steps; a live parent runner keeps looping (report children, then its loop iteration), as BaseRunner.run does
            clock.advance(60.0)
            if parent is not None:
                try:
                    parent._report_child_runner_heartbeats()
                    parent.runner_loop_iteration()
                    hooks["parent_loop_iterations"] += 1
                except Exception as e:
                    errors.append(f"parent-loop: {type(e).__name__}: {e}"[:200])
        set_thread_ctx(app, S)
        try:
            orch.register_runner_heartbeats([S.runner_id])
            if rnd == 0:
                # the survivor finishes its own running work (it is alive)
                for iid in st["finish_by_survivor"]:
                    try:
                        inv = app.state_backend.get_invocation(iid)
                        crash._log("end", st["accepted"][iid])
                        orch.set_invocation_result(inv, "done", S)
                    except Exception as e:
                        errors.append(f"survivor-finish: {type(e).__name__}: {e}"[:200])
            for fn in (core_tasks.recover_pending_invocations, core_tasks.recover_running_invocations):
                hooks["recoveries"] += 1
                try:
                    fn.func()
                except Exception as e:
                    errors.append(f"recovery: {type(e).__name__}: {e}"[:200])
            for _ in range(60):
                try:
                    got = list(orch.get_invocations_to_run(4, S))
                except Exception as e:
                    errors.append(f"claim: {type(e).__name__}: {e}"[:200])
                    break
                for inv in got:
                    try:
                        inv.run(S)
                    except Exception:
                        pass
                    set_thread_ctx(app, S)
                if not got and app.broker.count_invocations() == 0:
                    break
        finally:
            clear_thread_ctx(app)
        flush_history(app)
    return errors


FINAL = {"SUCCESS", "FAILED", "CONCURRENCY_CONTROLLED_FINAL"}
AVAILABLE = {"REGISTERED", "REROUTED", "RETRY"}


def effect_category(effects):
    """the last lifecycle effect (queue pop / push, status write) of the dying process names the window"""
    for e in reversed(effects):
        for lab in reversed(e["labels"]):
            if lab.startswith("DELETE broker_message_queue"):
                return "pop"
            if lab.startswith("INSERT broker_message_queue"):
                return "push"
            if "orchestrator_invocations[" in lab:
                return "write[" + lab.split("[", 1)[1]
            if lab.startswith("INSERT orchestrator_invocations"):
                return "register"
    return "nothing"


def classify_static(state):
    status, owner, queued = state
    if status in FINAL:
        return "final"
    if status in AVAILABLE and queued:
        return "queued-available"
    if status == "PENDING":
        return "pending"
    if status in ("RUNNING", "PAUSED", "RESUMED") and owner:
        return "held"
    return "NEITHER"


def one_run(case, td, tag, crash_at, clock, hooks, V, distinct, double_at=None):
    from vtasks import crash
    db = td.db(f"{tag}.sqlite")
    crash.LOG_PATH = os.path.join(td.path, f"{tag}.bodylog")
    report_path = os.path.join(td.path, f"{tag}.report")
    app, tasks, st, (S, R, D) = setup(case, db)
    if st.get("advance_before_child"):
        clock.advance(st["advance_before_child"])
    before = snapshot(app, st["accepted"])
    rc = fork_run(child_main, case, db, st, crash_at, report_path)
    rep = read_report(report_path)
    if rc is None:
        return {"inconclusive": "doomed process hit the watchdog"}
    err = [r for r in rep if "child_error" in r]
    if err:
        V.append({"sig": f"role-raised:{case['role']}:{case['scenario']}", "what": err[0]["child_error"], "witness": {"case": case, "crash_at": crash_at}})
        return {}
    accepted = dict(st["accepted"])
    for r in rep:
        if "accepted" in r:
            accepted[r["accepted"]] = r["key"]
    st["accepted"] = accepted
    effects = [r for r in rep if "effect" in r]
    crashed = [r for r in rep if "crashed_after" in r]
    last_label = "+".join(crashed[0]["labels"]) if crashed else "none(fault-free)"
    last_cat = effect_category(effects) if crashed else "end-of-role"
    at_crash = snapshot(app, accepted)
    first_crash, first_cat = None, last_cat
    if double_at is not None:
        # a first recovering process (alive runner with a heartbeat) dies at its own effect #double_at
        first_crash = at_crash
        clock.advance(600.0)
        set_thread_ctx(app, S)
        app.orchestrator.register_runner_heartbeats([S.runner_id])   # the survivor is alive all along
        clear_thread_ctx(app)
        rp2 = report_path + ".rec"
        rc2 = fork_run(child_main, case, db, st, double_at, rp2, True)
        rep2 = read_report(rp2)
        crashed2 = [r for r in rep2 if "crashed_after" in r]
        last_label += " && recoverer:" + ("+".join(crashed2[0]["labels"]) if crashed2 else "none")
        if crashed2:
            last_cat = "recoverer:" + effect_category([r for r in rep2 if "effect" in r])
        at_crash = snapshot(app, accepted)
    parent = patch = None
    if (case["role"], case["scenario"]) in (("run", "child"), ("run", "pprchild")):
        parent, patch = make_parent(app, R.runner_id, "mtr" if case["scenario"] == "child" else "ppr")
    try:
        errors = recover_and_drain(app, S, st, clock, hooks, parent=parent)
    finally:
        if patch:
            patch.close()
    after = snapshot(app, accepted)
    log = crash.read_log()
    ended = {e[1] for e in log if e[0] == "end"}
    wit_base = {"case": case, "crash_after_effect": crash_at, "effect_labels": [e["labels"] for e in effects][-6:], "recovery_errors": errors[:3]}
    for iid, key in accepted.items():
        hooks["accepted_checked"] += 1
        s_now = after[iid]
        s_then = at_crash[iid]
        cls = classify_static(s_then)
        if s_now[0] not in FINAL:
            kind, cat = ('none' if crash_at is None else ('double' if double_at is not None else 'yes')), last_cat
            if first_crash is not None and iid in first_crash and classify_static(first_crash[iid]) == "NEITHER" and first_crash[iid][0] == s_then[0] and min(first_crash[iid][2], 1) == min(s_then[2], 1):
                kind, cat = "yes", first_cat      # already stranded by the first crash; the second one did not touch it
            # the write-then-push windows (REROUTED / RETRY / KILLED, REGISTERED after a pop) hold one invocation at a time on
            # the code as listed in known_findings.json: several invocations caught in the same window by one crash is a
            # different (wider) mechanism and must not be absorbed by the listed one
            ref = first_crash if (kind == "yes" and double_at is not None) else at_crash
            same = 1
            if s_then[0] in ("REROUTED", "RETRY", "KILLED", "REGISTERED"):
                same = sum(1 for j in accepted if j in ref and ref[j][0] == s_then[0] and min(ref[j][2], 1) == min(s_then[2], 1)
                           and classify_static(ref[j]) == "NEITHER" and after[j][0] not in FINAL
                           and not (ref is at_crash and first_crash is not None and j in first_crash and classify_static(first_crash[j]) == "NEITHER"
                                    and first_crash[j][0] == ref[j][0]))
            mult = f"x{same}" if same > 1 else ""
            mech = f"at={s_then[0]}/q{min(s_then[2], 1)}{mult}:after={cat}:crash={kind}"
            V.append({"sig": f"stranded:{case['role']}/{case['scenario']}:{mech}",
                      "what": f"accepted invocation '{key}' is {s_now[0]} (not final) after recovery + drain; at the crash instant (after effect: {last_label}) it was {s_then} [{cls}]",
                      "witness": {**wit_base, "key": key, "at_crash": {accepted[i]: list(v) for i, v in at_crash.items()}, "after": {accepted[i]: list(v) for i, v in after.items()}}})
        elif key not in ended and s_now[0] != "CONCURRENCY_CONTROLLED_FINAL":
            V.append({"sig": f"final-without-body:{case['role']}/{case['scenario']}:status-at-crash={s_then[0]}",
                      "what": f"accepted invocation '{key}' is {s_now[0]} but its body never completed", "witness": {**wit_base, "key": key, "log": log[-10:]}})
        elif cls == "NEITHER":
            hooks["static_neither_but_recovered"] += 1
    for e in errors:
        V.append({"sig": f"survivor-raised:{case['role']}/{case['scenario']}:{e.split(':')[0]}:{e.split(':')[1].strip() if ':' in e else ''}", "what": e, "witness": wit_base})
    for iid in accepted:
        distinct.append((case["role"], case["scenario"], case["hb"], last_label, at_crash[iid][0], min(at_crash[iid][2], 1)))
    for a in (app,):
        flush_history(a)
    return {"effects": len(effects), "labels": [e["labels"] for e in effects]}


def run_case(case):
    from vlib import vclock
    hooks = Counter()
    V, distinct = [], []
    inconc = None
    clock = vclock.VClock(start=1_700_000_000.0, tick=1e-4)
    inst = vclock.install(clock)
    extra = {}
    try:
        with TmpDir() as td:
            r = one_run(case, td, "ff", None, clock, hooks, V, distinct)
            hooks["fault_free_runs"] += 1
            if r.get("inconclusive"):
                inconc = r["inconclusive"]
            n = r.get("effects", 0)
            extra["effects_of_role"] = r.get("labels")
            hooks["effects_enumerated"] += n
            for k in range(1, n + 1):
                r = one_run(case, td, f"k{k}", k, clock, hooks, V, distinct)
                hooks["crash_runs"] += 1
                if r.get("inconclusive"):
                    inconc = r["inconclusive"]
            if case["double"]:
                # double faults: the role dies at k, the first recoverer dies at each of its own first effects
                for k in range(1, n + 1):
                    for k2 in range(1, 9):
                        r = one_run(case, td, f"k{k}d{k2}", k, clock, hooks, V, distinct, double_at=k2)
                        hooks["crash_runs"] += 1
    finally:
        inst.uninstall()
    seen, out = Counter(), []
    for v in V:
        seen[v["sig"]] += 1
        if seen[v["sig"]] <= 2:
            out.append(v)
    dset = {tuple(map(str, d)) for d in distinct}
    return {"violations": out, "distinct": [list(d) for d in dset], "hooks": dict(hooks), "events": hooks["accepted_checked"], "evaluations": hooks["crash_runs"] + hooks["fault_free_runs"],
            "sample": {"case": case, "effects": extra.get("effects_of_role")}, "inconclusive": inconc, "extra": extra}
