"""C07 - registration concurrency collapses duplicate submissions onto one invocation.

Oracle: a small model  key -> the invocation currently REGISTERED  updated on submissions, claims and
completions; the key is computed from the Python argument values the harness submitted (never from
pynenc's serialized index).  Both backends run the same history in lockstep.
"""
from __future__ import annotations

import hashlib
import random
from collections import Counter

from vlib.apps import TmpDir, make_app, runner_ctx, set_thread_ctx, clear_thread_ctx, queue_ids

PID = "C07"
LEVEL = "exploration"
RULE = ("histories of 20-60 operations (submissions with repeated argument values in positional / keyword / defaults-omitted spellings, "
        "claims, completions) for every registration mode x key-argument choice x raise option on both backends in lockstep; "
        "distinct = history hash; non-trivial = the history contains at least one reuse and one fresh creation after a claim")
ASSUMPTIONS = [
    "argument values are ints and strings, for which Python equality and equality of the serialized form coincide",
    "TASK/ARGUMENTS mode with the raise option and different arguments is left open by the statement (either reuse or error accepted, but nothing may change on error)",
]
REQUIRED_HOOKS = ["submissions", "reuses_expected", "fresh_expected", "registered_per_key_checks", "raise_expected", "rejected_requests"]

MODES = [
    ("DISABLED", (), False), ("TASK", (), False), ("ARGUMENTS", (), False), ("ARGUMENTS", (), True),
    ("KEYS", ("k",), False), ("KEYS", ("k",), True), ("KEYS", ("k", "v"), False), ("KEYS", ("k", "v"), True),
]


def WORKERS(tier):
    return 12


def gen_cases(tier, seed):
    n = 20000 if tier == "thorough" else 400
    per = 100 if tier == "thorough" else 10
    cases = []
    for i in range(n // per):
        mode, keys, rais = MODES[i % len(MODES)]
        # 'big': argument values large enough to be externalised by the client data store (threshold lowered to 8 in half of them)
        cases.append({"mode": mode, "keys": list(keys), "raise": rais, "seed": seed * 50021 + i, "n": per, "big": (i // len(MODES)) % 2 == 1,
                      "threshold": 8 if (i // len(MODES)) % 4 == 1 else 1024})
    return cases


def model_key(mode, keys, args):
    if mode == "TASK":
        return ("task",)
    if mode == "ARGUMENTS":
        return ("args", args["k"], args["v"], args["w"])
    if mode == "KEYS":
        return ("keys",) + tuple(args[k] for k in keys)
    return None


def submit(task, args, spelling):
    k, v, w = args["k"], args["v"], args["w"]
    if spelling == "pos":
        return task(k, v, w)
    if spelling == "kw":
        return task(w=w, k=k, v=v)
    if spelling == "mixed":
        return task(k, w=w, v=v)
    if spelling == "omit":  # defaults omitted where possible
        kw = {}
        if v != 0:
            kw["v"] = v
        if w != 0:
            kw["w"] = w
        return task(k, **kw)
    raise ValueError(spelling)


def run_history(case, rng, apps, V, hooks, distinct):
    from pynenc.conf.config_task import ConcurrencyControlType
    from pynenc.exceptions import InvocationConcurrencyWithDifferentArgumentsError
    from pynenc.invocation.status import InvocationStatus
    from vtasks import basic
    mode, keys, rais = case["mode"], tuple(case["keys"]), case["raise"]
    opts = dict(registration_concurrency=ConcurrencyControlType[mode], on_diff_non_key_args_raise=rais)
    if keys:
        opts["key_arguments"] = keys
    tasks, ctxs = {}, {}
    for kind, app in apps.items():
        app.purge()
        app._tasks.clear()
        tasks[kind] = app.task(basic.keyed, **opts)
        ctxs[kind] = runner_ctx("R", f"runner-{kind}")
    # model
    registered = {}           # key -> creation index of the REGISTERED invocation
    inv_args = []             # creation index -> args
    inv_status = []           # creation index -> "REGISTERED" | "CLAIMED" | "DONE"
    ids = {kind: [] for kind in apps}   # creation index -> real id per backend
    trail = []
    had_reuse = had_fresh_after_claim = False
    claimed_any = False
    nops = rng.randint(20, 60)
    # 'big': every size class of a serialized argument - short, just over a tiny threshold, a few hundred characters (inline under the
    # default threshold but long for an index column), above the default threshold (externalised)
    kvals = ["a", "b", 1, 2, "L" * 12, "S" * 300, "T" * 700, "M" * 1100] if case.get("big") else ["a", "b", 1, 2]
    vvals = [0, 1, "x", "v" * 14, "u" * 420] if case.get("big") else [0, 1, "x"]
    for _ in range(nops):
        r = rng.random()
        if r < 0.62:
            args = {"k": rng.choice(kvals), "v": rng.choice(vvals), "w": rng.choice([0, 0, 5])}
            spelling = rng.choice(["pos", "kw", "mixed", "omit"])
            key = model_key(mode, keys, args)
            trail.append(["submit", args, spelling])
            hooks["submissions"] += 1
            # expectation
            if mode == "DISABLED" or key not in registered:
                exp = ("fresh",)
            else:
                ex_idx = registered[key]
                same_call = inv_args[ex_idx] == args
                if same_call:
                    exp = ("reuse", ex_idx)
                elif mode == "KEYS" and rais:
                    exp = ("raise",)
                elif rais:
                    exp = ("open", ex_idx)   # TASK/ARGUMENTS + raise option + different args: not fixed by the statement
                else:
                    exp = ("reuse", ex_idx)
            hooks[{"fresh": "fresh_expected", "reuse": "reuses_expected", "raise": "raise_expected", "open": "open_cells"}[exp[0]]] += 1
            outcomes = {}
            for kind, app in apps.items():
                before = (app.orchestrator.count_invocations(), app.broker.count_invocations())
                try:
                    inv = submit(tasks[kind], args, spelling)
                    out = ("inv", inv.invocation_id, type(inv).__name__)
                except InvocationConcurrencyWithDifferentArgumentsError:
                    out = ("raised",)
                except Exception as e:
                    out = ("error", f"{type(e).__name__}: {e}"[:200])
                after = (app.orchestrator.count_invocations(), app.broker.count_invocations())
                outcomes[kind] = (out, before, after)
                wit = {"mode": mode, "keys": keys, "raise": rais, "backend": kind, "trail": [[t[0], {k_: (v_ if len(str(v_)) < 20 else f"{str(v_)[:3]}..len{len(str(v_))}") for k_, v_ in t[1].items()}, t[2]] if t[0] == "submit" else t for t in trail[-12:]], "expected": list(exp), "got": list(out)}
                if out[0] == "error":
                    V.append({"sig": f"submit-error:{mode}", "what": f"{kind}: submission raised {out[1]}", "witness": wit})
                    continue
                if exp[0] == "fresh":
                    if out[0] != "inv" or out[1] in ids[kind]:
                        V.append({"sig": f"expected-fresh:{mode}:{'raised' if out[0] == 'raised' else 'reused'}",
                                  "what": f"{kind}: no REGISTERED invocation with this key, but the submission {'raised' if out[0] == 'raised' else 'returned an existing id'}", "witness": wit})
                    elif after[0] != before[0] + 1 or after[1] != before[1] + 1:
                        V.append({"sig": f"fresh-not-registered-and-queued:{mode}", "what": f"{kind}: counts {before} -> {after}", "witness": wit})
                elif exp[0] in ("reuse", "open"):
                    want = ids[kind][exp[1]]
                    if out[0] == "raised":
                        if exp[0] == "reuse":
                            V.append({"sig": f"expected-reuse:{mode}:raised", "what": f"{kind}: submission raised instead of returning the REGISTERED invocation", "witness": wit})
                        elif after != before:
                            V.append({"sig": f"raise-changed-state:{mode}", "what": f"{kind}: counts {before} -> {after}", "witness": wit})
                    elif out[1] != want:
                        kindof = "new-id" if out[1] not in ids[kind] else "other-existing-id"
                        V.append({"sig": f"expected-reuse:{mode}:{kindof}", "what": f"{kind}: a REGISTERED invocation with the same key exists but the submission returned {kindof}", "witness": wit})
                    elif after != before:
                        V.append({"sig": f"reuse-created-something:{mode}", "what": f"{kind}: counts {before} -> {after} on a reuse", "witness": wit})
                elif exp[0] == "raise":
                    if out[0] != "raised":
                        V.append({"sig": "expected-raise:KEYS:not-raised", "what": f"{kind}: equal keys, different other arguments, raise option on: returned {out}", "witness": wit})
                    elif after != before:
                        V.append({"sig": "raise-changed-state:KEYS", "what": f"{kind}: counts {before} -> {after}", "witness": wit})
            # advance the model from what the mem backend did when it was a legal outcome (lockstep needs both to agree)
            kinds_of = {k_: o[0][0] + (":new" if o[0][0] == "inv" and o[0][1] not in ids[k_] else "") for k_, o in outcomes.items()}
            if len(set(kinds_of.values())) > 1:
                V.append({"sig": f"backends-disagree:{mode}", "what": f"outcomes {kinds_of}", "witness": {"trail": trail[-12:], "mode": mode}})
                return
            first = next(iter(outcomes.values()))[0]
            if first[0] == "inv" and all(o[0][1] not in ids[k_] for k_, o in outcomes.items()):
                idx = len(inv_args)
                inv_args.append(args)
                inv_status.append("REGISTERED")
                for k_, o in outcomes.items():
                    ids[k_].append(o[0][1])
                if key is not None and key not in registered:
                    registered[key] = idx
                if claimed_any:
                    had_fresh_after_claim = True
            elif first[0] == "inv":
                had_reuse = True
        elif r < 0.68:
            # a request on a still REGISTERED invocation that the lifecycle rejects (no such edge): it must leave the registration as it was,
            # so the following submissions of that key are still collapsed onto it
            cand = [i for i, s_ in enumerate(inv_status) if s_ == "REGISTERED"]
            if not cand:
                continue
            idx = rng.choice(cand)
            target = rng.choice(["RUNNING", "SUCCESS", "KILLED", "REROUTED", "RETRY"])
            trail.append(["rejected-request", idx, target])
            raised = {}
            for kind, app in apps.items():
                set_thread_ctx(app, ctxs[kind])
                try:
                    app.orchestrator.set_invocation_status(ids[kind][idx], InvocationStatus[target], ctxs[kind])
                    raised[kind] = False
                except Exception:
                    raised[kind] = True
                finally:
                    clear_thread_ctx(app)
            if not all(raised.values()):
                return   # the request went through on some backend: that is C01's subject; this history no longer follows the model
            hooks["rejected_requests"] += 1
        elif r < 0.85:
            # claim one invocation per backend (queue order is the same in both)
            trail.append(["claim"])
            got = {}
            for kind, app in apps.items():
                set_thread_ctx(app, ctxs[kind])
                try:
                    invs = list(app.orchestrator.get_invocations_to_run(1, ctxs[kind]))
                finally:
                    clear_thread_ctx(app)
                got[kind] = [ids[kind].index(i.invocation_id) if i.invocation_id in ids[kind] else -1 for i in invs]
            if len({tuple(v) for v in got.values()}) > 1:
                V.append({"sig": "backends-disagree:claim", "what": f"claimed {got}", "witness": {"trail": trail[-12:], "mode": mode}})
                return
            for idx in next(iter(got.values())):
                if idx >= 0:
                    inv_status[idx] = "CLAIMED"
                    claimed_any = True
                    for k_, v_ in list(registered.items()):
                        if v_ == idx:
                            del registered[k_]
        elif r < 0.92:
            # a claimed invocation leaves its runner unfinished: PENDING -> REROUTED, or RUNNING -> RETRY; both put it back into the queue in an
            # available status that is NOT REGISTERED, so a later submission of the same key must still create a fresh invocation
            cand = [i for i, s in enumerate(inv_status) if s == "CLAIMED"]
            if not cand:
                continue
            idx = rng.choice(cand)
            how = rng.choice(["reroute", "retry"])
            trail.append(["give-back", idx, how])
            hooks["given_back"] += 1
            for kind, app in apps.items():
                set_thread_ctx(app, ctxs[kind])
                try:
                    if how == "reroute":
                        app.orchestrator.reroute_invocations({ids[kind][idx]}, ctxs[kind])
                    else:
                        app.orchestrator.set_invocation_status(ids[kind][idx], InvocationStatus.RUNNING, ctxs[kind])
                        app.orchestrator.set_invocation_retry(ids[kind][idx], RuntimeError("again"), ctxs[kind])
                finally:
                    clear_thread_ctx(app)
            inv_status[idx] = "GIVEN-BACK"
        else:
            # complete a claimed invocation
            cand = [i for i, s in enumerate(inv_status) if s == "CLAIMED"]
            if not cand:
                continue
            idx = rng.choice(cand)
            trail.append(["complete", idx])
            for kind, app in apps.items():
                inv = app.state_backend.get_invocation(ids[kind][idx])
                set_thread_ctx(app, ctxs[kind])
                try:
                    inv.run(ctxs[kind])
                finally:
                    clear_thread_ctx(app)
            inv_status[idx] = "DONE"
        # invariant after every operation: at most one REGISTERED invocation per key (sequential history)
        hooks["registered_per_key_checks"] += 1
        if mode != "DISABLED":
            for kind, app in apps.items():
                per_key = Counter()
                for idx, rid in enumerate(ids[kind]):
                    if app.orchestrator.get_invocation_status(rid) == InvocationStatus.REGISTERED:
                        per_key[model_key(mode, keys, inv_args[idx])] += 1
                dup = {str(k_): c for k_, c in per_key.items() if c > 1}
                if dup:
                    V.append({"sig": f"two-registered-per-key:{mode}", "what": f"{kind}: {dup}", "witness": {"trail": trail[-12:], "mode": mode, "keys": keys}})
    if mode == "DISABLED" or (had_reuse and had_fresh_after_claim):
        distinct.append([mode, list(keys), rais, hashlib.sha1(repr(trail).encode()).hexdigest()[:12]])


def run_case(case):
    rng = random.Random(case["seed"])
    hooks = Counter()
    V, distinct = [], []
    with TmpDir() as td:
        thr = case.get("threshold", 1024)
        apps = {"mem": make_app("mem", app_id=f"c07m{case['seed']}", cached_status_time=0.0, min_size_to_cache=thr),
                "sqlite": make_app("sqlite", td.db(), app_id=f"c07s{case['seed']}", cached_status_time=0.0, min_size_to_cache=thr)}
        for _ in range(case["n"]):
            run_history(case, rng, apps, V, hooks, distinct)
    seen, out = Counter(), []
    for v in V:
        seen[v["sig"]] += 1
        if seen[v["sig"]] <= 2:
            out.append(v)
    return {"violations": out, "distinct": distinct, "hooks": dict(hooks), "events": sum(hooks.values()), "evaluations": case["n"],
            "sample": case if case["id"] % 8 == 0 else None}
