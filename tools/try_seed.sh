#!/bin/bash
# usage: tools/try_seed.sh <patch.diff> <Cxx> [quick|thorough]   -- apply a seeded change to /repo, run the check, undo it
set -u
P="$1"; PID="$2"; TIER="${3:-quick}"
cd /repo || exit 9
if [ -n "$(git status --porcelain --untracked-files=no)" ]; then echo "repo not clean" >&2; exit 9; fi
git apply "$P" || { echo "patch does not apply" >&2; exit 8; }
cd /verif
./check "$PID" "$TIER" > /tmp/try_seed_out.txt 2>&1
rc=$?
git -C /repo checkout -- .
grep -E "^(VIOLATION|KNOWN-FINDING|INCONCLUSIVE|HELD|\[C)" /tmp/try_seed_out.txt | cut -c1-400 | head -12
echo "exit=$rc"
