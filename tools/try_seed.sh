#!/bin/bash
# usage: tools/try_seed.sh <patch.diff> <Cxx> [quick|thorough]
# Calibration helper: applies a seeded change to a scratch worktree of /repo HEAD (outside /repo and /verif), runs the
# check against it (VERIF_REPO), writes evidence to a scratch directory, removes the worktree.
# (The documented procedure - git -C /repo apply; ./check; git -C /repo checkout -- . - gives the same result;
#  the scratch worktree lets several seeds be tried while /repo stays untouched.)
set -u
P="$(readlink -f "$1")"; PID="$2"; TIER="${3:-quick}"
NAME="$(echo "$P" | tr '/.' '__')_$PID"
WT="/tmp/tryseed/$NAME"
mkdir -p /tmp/tryseed /tmp/tryseed_out/$NAME
git -C /repo worktree remove --force "$WT" 2>/dev/null
git -C /repo worktree add -q --detach "$WT" HEAD || exit 9
( cd "$WT" && git apply "$P" ) || { echo "patch does not apply"; git -C /repo worktree remove --force "$WT"; exit 8; }
cd /verif
VERIF_REPO="$WT" VERIF_OUT="/tmp/tryseed_out/$NAME" ./check "$PID" "$TIER" > "/tmp/tryseed_out/$NAME/out.txt" 2>&1
rc=$?
git -C /repo worktree remove --force "$WT"
grep -E "^(VIOLATION|KNOWN-FINDING|INCONCLUSIVE|HELD|\[C)" "/tmp/tryseed_out/$NAME/out.txt" | cut -c1-400 | head -12
echo "exit=$rc"
