#!/usr/bin/env python3
"""Debug helper: run one generated case of a check in-process.  usage: tools/runcase.py c08 <index|json> [tier]"""
import importlib, json, os, sys, time
sys.path.insert(0, os.path.dirname(os.path.dirname(os.path.abspath(__file__))))
os.environ.setdefault("VERIF_HOME", os.path.dirname(os.path.dirname(os.path.abspath(__file__))))
from vlib import driver  # noqa (sets sys.path for .deps)
mod = importlib.import_module("checks." + sys.argv[1])
tier = sys.argv[3] if len(sys.argv) > 3 else "quick"
cases = mod.gen_cases(tier, int(os.environ.get("VERIF_SEED", "0")))
for i, c in enumerate(cases):
    c.setdefault("id", i)
arg = sys.argv[2]
if arg == "list":
    for c in cases:
        print(json.dumps(c)[:200])
    sys.exit(0)
case = cases[int(arg)] if arg.isdigit() else json.loads(arg)
case.setdefault("id", 0)
if hasattr(mod, "setup_worker"):
    mod.setup_worker()
t0 = time.time()
r = mod.run_case(case)
r.pop("distinct", None) if len(json.dumps(r.get("distinct", []))) > 2000 else None
print(json.dumps(r, indent=1, default=repr)[:6000])
print("wall", round(time.time() - t0, 2))
