#!/usr/bin/env python3
"""Debug helper: run one generated case of a check in-process.  usage: tools/runcase.py c08 <index|json> [tier]"""
import importlib, json, os, sys, time
sys.path.insert(0, os.path.dirname(os.path.dirname(os.path.abspath(__file__))))
os.environ.setdefault("VERIF_HOME", os.path.dirname(os.path.dirname(os.path.abspath(__file__))))
from vlib import driver  # noqa (sets sys.path for .deps)
mod = importlib.import_module("checks." + sys.argv[1])
tier = sys.argv[3] if len(sys.argv) > 3 else "quick"
cases = mod.gen_cases(tier, int(os.environ.get("VERIF_SEED", "0")))
for i, c in enumerate(cases):
    c.setdefault("id", i)
arg = sys.argv[2]
if arg == "list":
    for c in cases:
        print(json.dumps(c)[:200])
    sys.exit(0)
case = cases[int(arg)] if arg.isdigit() else json.loads(arg)
case.setdefault("id", 0)
if hasattr(mod, "setup_worker"):
    mod.setup_worker()
t0 = time.time()
r = mod.run_case(case)
if "--full" in sys.argv:
    print(json.dumps(r, indent=1, default=repr)[:20000])
else:
    print("hooks", r.get("hooks"), "extra", r.get("extra"), "inconclusive", r.get("inconclusive"), "distinct", len(r.get("distinct", [])), "evaluations", r.get("evaluations"))
    for v in r.get("violations", [])[:8]:
        print("VIO", v["sig"], "|", str(v["what"])[:400])
        if "--wit" in sys.argv:
            print(json.dumps(v["witness"], default=repr)[:3000])
print("wall", round(time.time() - t0, 2))
