#!/bin/bash
# usage: tools/recheck_failed.sh <seed id>  -- re-run (alone, with the seeded patch applied) the baseline tests that did not pass in confirm.json
ID="$1"; DEST="/verif/seeded/$ID"; WT="/tmp/confirm/${ID}_re"
git -C /repo worktree remove --force "$WT" 2>/dev/null
git -C /repo worktree add -q --detach "$WT" HEAD || exit 9
( cd "$WT" && git apply "$DEST/patch.diff" ) || exit 8
python3 - "$DEST" > /tmp/recheck_$ID.ids <<'PY'
import json,sys
d=json.load(open(sys.argv[1]+"/confirm.json"))
for l in d["baseline_cmp"].splitlines()[1:]:
    l=l.strip()
    if not l or l.endswith(" skip") and "cpu_work_performance" in l: continue
    name=l.rsplit(" ",1)[0]
    if "::" not in name: continue
    cls,test=name.split("::",1)
    print(cls.replace(".","/")+".py::"+test)
PY
if [ -s /tmp/recheck_$ID.ids ]; then
  cd "$WT"; mapfile -t IDS < /tmp/recheck_$ID.ids
  PYTHONPATH="$WT" timeout 1800 /venv/bin/python -m pytest -q -p no:cacheprovider --timeout=900 "${IDS[@]}" > "$DEST/rerun.log" 2>&1
  rc=$?
  tail -3 "$DEST/rerun.log" | cut -c1-200 > "$DEST/rerun_summary.txt"
  for p in $(pgrep -f python); do [ "$(readlink /proc/$p/cwd 2>/dev/null)" = "$WT" ] && kill -9 $p 2>/dev/null; done
else
  rc=0; echo "nothing to re-run" > "$DEST/rerun_summary.txt"
fi
python3 - "$DEST" "$rc" <<'PY'
import json,sys
p=sys.argv[1]+"/confirm.json"; d=json.load(open(p)); d["rerun_failed_rc"]=int(sys.argv[2]); d["rerun_summary"]=open(sys.argv[1]+"/rerun_summary.txt").read()
json.dump(d,open(p,"w"),indent=1)
PY
rm -f "$DEST/rerun.log"
cd /; git -C /repo worktree remove --force "$WT"
echo "$ID rerun rc=$rc: $(cat $DEST/rerun_summary.txt | tail -1)"
