#!/usr/bin/env python3
"""Writes seeded/<id>/meta.json from the agent's notes, my confirmation (confirm.json) and the detection table below."""
import json, os, re, sys
ROOT = os.path.dirname(os.path.dirname(os.path.abspath(__file__)))
DETECT = {
    # id: (check that catches it, signature family seen, note)
    "C03a": ("C03", "stranded:ppr/cc:at=CONCURRENCY_CONTROLLED/q0:after=end-of-role:crash=none", ""),
    "C03b": ("C14", "heartbeat-for-dead-worker:mtr", "not a C03 violation on the repaired tree: fix 4c56e5f prunes the dead child in the same loop iteration, recovery is delayed by one iteration only"),
    "C04b": (None, None, "not caught: after fix f70b98e only a longer 'REROUTED written, not yet pushed' crash window remains, which is the listed C03 mechanism; its demonstration also fails on the repaired unchanged tree"),
    "C09b": ("C09", "blocking-report:missing / includes-itself-waiting", ""),
    "C13a": ("C13", "occurrence-launched-more-than-once:*:concurrent-loops", ""),
    "C13b": ("C13", "cron:tick-missed", ""),
    "C16a": ("C16", "diverge:later-observation:readout-after:value (blocking set after auto_purge)", ""),
    "C16b": ("C16", "diverge:return:t_claim_run / t_claim_exec:value", ""),
    "C18a": ("C18", "workflows-share-sub-invocation", ""),
    "C18b": ("C18", "subtask-launched-more-than-once / replay-differs:sub", ""),
    "C19a": ("C19", "execution-count-vs-statement:retry-boundary-race", ""),
    "C19b": ("C19", "execution-count-vs-statement:* / execution-counts-differ:sync-vs-*", ""),
    "C20a": ("C20", "get-changed-system:overlapping-requests:queue-order", ""),
    "C20b": ("C20", "get-changed-system:/invocations/:state", ""),
}
for d in sorted(os.listdir(os.path.join(ROOT, "seeded"))):
    p = os.path.join(ROOT, "seeded", d)
    if not os.path.isdir(p) or not os.path.exists(os.path.join(p, "patch.diff")):
        continue
    prop = d[:3]
    notes = ""
    for n in ("notes.md", "NOTES.md", "README.md"):
        if os.path.exists(os.path.join(p, n)):
            notes = open(os.path.join(p, n), errors="replace").read()
            break
    title = next((l.strip("# ").strip() for l in notes.splitlines() if l.startswith("#")), "")
    def section(rx):
        m = re.search(rx + r".*?\n(.*?)(?=\n## |\Z)", notes, re.S | re.I)
        return m.group(1).strip()[:2000] if m else ""
    needs = section(r"##[^\n]*needs") or section(r"##[^\n]*manifest")
    clause = section(r"##[^\n]*clause") or section(r"##[^\n]*break")
    conf = {}
    if os.path.exists(os.path.join(p, "confirm.json")):
        conf = json.load(open(os.path.join(p, "confirm.json")))
    chk, sig, note = DETECT.get(d, (prop, None, ""))
    files = sorted(os.listdir(p))
    meta = {
        "id": d, "property": prop, "change": title, "breaks": clause, "needs_to_manifest": needs,
        "patch": "patch.diff" + (" (rebased onto the repaired tree; the agent's original against the pinned commit is patch_orig_pinned.diff)" if "patch_orig_pinned.diff" in files else ""),
        "demonstration": [f for f in files if f.startswith("demo") and f.endswith(".py")] + [f for f in files if f.endswith("_tasks.py")],
        "what_i_ran": {
            "confirmation": "tools/confirm_seed.sh %s <agent output dir>: scratch worktree of /repo HEAD outside /repo and /verif; demonstration without and with the patch; the repository's full test suite with the patch compared with BASELINE stable_pass (tools/baseline_cmp.py); tests not passing in that (loaded) run re-run alone with the patch (tools/recheck_failed.sh)" % d,
            "demo_exit_without_patch": conf.get("demo_rc_clean"), "demo_exit_with_patch": conf.get("demo_rc_patched"), "patch_applied": conf.get("patch_applied"),
            "suite_with_patch": (conf.get("baseline_cmp") or "").splitlines()[:1], "suite_not_passing": (conf.get("baseline_cmp") or "").splitlines()[1:12],
            "rerun_of_not_passing_alone": conf.get("rerun_summary"),
            "check_run": f"tools/try_seed.sh seeded/{d}/patch.diff {chk}" if chk else None,
        },
        "caught_by": chk, "signature_seen": sig, "note": note,
    }
    json.dump(meta, open(os.path.join(p, "meta.json"), "w"), indent=1)
    print(d, "meta written;", "caught by", chk)
