#!/usr/bin/env python3
"""Writes seeded/<id>/meta.json from the agent's notes, my confirmation (confirm.json) and the detection table below."""
import json, os, re, sys
ROOT = os.path.dirname(os.path.dirname(os.path.abspath(__file__)))
DETECT = {
    "C01b": ("C02", "in-lock-chain-broken:mem / status-history:not-linearizable:mem", "an interleaving defect (the in-memory read hoisted out of the per-invocation lock): not visible to C01, whose quantifier is sequential; reported by C02"),
    # id: (check that catches it, signature family seen, note)
    "C03a": ("C03", "stranded:ppr/cc:at=CONCURRENCY_CONTROLLED/q0:after=end-of-role:crash=none", ""),
    "C03b": ("C14", "heartbeat-for-dead-worker:mtr", "not a C03 violation on the repaired tree: fix 4c56e5f prunes the dead child in the same loop iteration, recovery is delayed by one iteration only"),
    "C04b": ("C03", "stranded:{claim,ppr}/cc:at=REROUTED/q0x2:after=write[REROUTED] / at=REROUTED/q0:after=push", "missed until the fifth session: the C03 quick tier had no case in which one reroute_invocations call handles two invocations, and the stranded signature did not say how many invocations one crash caught in the same write-then-push window; added claim/cc and ppr/cc with two blocked same-key invocations on the quick tier and the multiplicity (xK) in the mechanism of the one-at-a-time windows"),
    "C09b": ("C09", "blocking-report:missing / includes-itself-waiting", ""),
    "C13a": ("C13", "occurrence-launched-more-than-once:*:concurrent-loops", ""),
    "C13b": ("C13", "cron:tick-missed", ""),
    "C16a": ("C16", "diverge:later-observation:readout-after:value (blocking set after auto_purge)", ""),
    "C16b": ("C16", "diverge:return:t_claim_run / t_claim_exec:value", ""),
    "C18a": ("C18", "workflows-share-sub-invocation", ""),
    "C18b": ("C18", "subtask-launched-more-than-once / replay-differs:sub", ""),
    "C19a": ("C19", "execution-count-vs-statement:retry-boundary-race", ""),
    "C19b": ("C19", "execution-count-vs-statement:* / execution-counts-differ:sync-vs-*", "valid seed at the pinned commit only: on the repaired tree (after fix 354a599) the existing test pynenc_tests/unit/task/test_task_parallelize.py::test_parallelize_with_deepcopy fails with it, so there it no longer slips through the suite; C19 reports it on both trees"),
    "C20a": ("C20", "get-changed-system:overlapping-requests:queue-order", ""),
    "C20b": ("C20", "get-changed-system:/invocations/:state", ""),
}

DETECT.update({
    # round 2 (fresh agents on the repaired tree; ids ...c / ...d)
    "C02c": ("C02", "in-lock-chain-broken:mem / status-history:two-claims-no-release:mem", ""),
    "C02d": ("C02", "yielded-without-claim:{mem,sqlite}", ""),
    "C03c": ("C03", "stranded:recover/*:at=*_RECOVERY/q1:after=push:crash=yes", "needed strengthening: the *_RECOVERY known-finding patterns were narrowed (q1 only after the *_RECOVERY write itself)"),
    "C03d": ("C03", "stranded:run/pprchild:at=RUNNING/q0", "needed strengthening: scenario run/pprchild (the dying runner is a pool worker of a live PersistentProcessRunner parent with stand-in processes)"),
    "C04c": ("C04", "left-in-recovery-status:lost-race:pending:*", ""),
    "C04d": ("C04", "scan-selects-live:running:sqlite / live-work-touched:running:sqlite", ""),
    "C05c": ("C05", "success-without-readable-result / success-with-wrong-result:json (also C15 ident:raised)", "needed strengthening: enums declared inside another class (and a module-level namesake) in the value generators"),
    "C05d": ("C05", "failed-without-readable-exception", "needed strengthening: fault injection in the result / exception write (storage error, interrupt, encoding error)"),
    "C06c": ("C06", "two-running-same-key:ARGUMENTS:*", ""),
    "C06d": ("C06", "poll-raised:InvocationStatusTransitionError / blocked-or-left-stranded:*", ""),
    "C08c": ("C08", "sched:dequeued-twice / proc:dequeued-twice", ""),
    "C08d": ("C08", "seq:order-or-loss:sqlite", ""),
    "C10c": ("C10", "history:filed-under-other-invocation:*", ""),
    "C10d": ("C10", "history:extra-entry / history:missing-entry", ""),
    "C11c": ("C11", "after-stop:PENDING:owned", ""),
    "C11d": ("C11", "stop-never-completes:join-on-waiting-thread:awaited-child-was-claimed-by-this-runner", ""),
    "C13c": ("C13", "occurrence-not-launched:event:*:concurrent-loops:mem", ""),
    "C13d": ("C13", "shared-condition:and-trigger-launched-fewer / shared-condition:occurrence-left-pending", "needed strengthening: scenario with two triggers sharing a condition (single + AND) and staggered arrivals"),
    "C16c": ("C16", "diverge:later-observation:readout-after:value (blocking set)", ""),
    "C16d": ("C16", "diverge:return:t_claim_run:value", ""),
    "C19c": ("C19", "execution-count-vs-statement:retry-boundary-race", ""),
    "C19d": ("C19", "execution-count-vs-statement:sync / execution-counts-differ:sync-vs-mem", ""),
    "C20c": ("C20", "get-changed-system:/broker/queue:queue-content (state dup_queue)", "needed strengthening: a state in which one id is queued twice"),
    "C20d": ("C20", "get-changed-system:/calls/:state (state long_args)", "needed strengthening: long inline arguments, every pool value for path ids, undeclared id query parameters"),
    # round 3 (ids ...e / ...f)
    "C01e": ("C01", "wrongly-accepted:not-owner", ""),
    "C01f": ("C02", "in-lock-chain-broken:mem", "an interleaving defect: not visible to C01 (sequential quantifier), caught by C02"),
    "C03e": ("C03", "stranded:run/pprchild:at=RUNNING/q0", ""),
    "C03f": ("C03", "stranded:kill/running:at=KILLED/q1:after=push", ""),
    "C05e": ("C05", "failed-without-readable-exception / failed-with-wrong-exception", ""),
    "C05f": ("C05", "final-result-returned-on-failed", "needed strengthening: superseded-execution scenario (the killed runner's old execution stores its outcome late)"),
    "C07e": ("C07", "backends-disagree:{ARGUMENTS,KEYS} / expected-raise:KEYS:not-raised", ""),
    "C07f": ("C07", "expected-fresh:*:reused / backends-disagree", "needed strengthening: give-back operations (claimed invocation re-routed / set to RETRY) in the histories"),
    "C09e": ("C09", "mem-ready-set-inconsistent", ""),
    "C09f": ("C09", "tree-never-completes:slots=1|2", ""),
    "C12e": ("C12", "margin-not-respected", ""),
    "C12f": ("C12", "two-authorised:margin-0.0 / system:two-authorised:margin-zero", ""),
    "C13e": ("C13", "trigger-loop-raised:RuntimeError:mem", "needed strengthening: every method of the store preemptible (wildcard line specs), two-loop bounded-preemption search on a warm store; the double launch itself needs a preemption inside one source line and is out of reach of line-level yield points"),
    "C13f": ("C13", "cron:tick-missed", ""),
    "C14e": ("C14", "dead-worker-still-tracked:mtr / pool-not-at-capacity:mtr", ""),
    "C14f": ("C14", "heartbeat-for-dead-worker:mtr", ""),
    "C15e": ("C15", "store:reference-after-foreign-purge:unresolvable:fresh-instance", "needed strengthening: another instance purges the shared store between two serializations of the same content"),
    "C15f": ("C15", "ident:arguments-not-bound:alldef-* / ident:spelling-changes-identity", "needed strengthening: a task whose parameters all have defaults, called with no argument"),
    "C17e": ("C17", "bystander-changed:purge:*:sqlite", ""),
    "C17f": ("C17", "bystander-changed:op:*:sqlite", ""),
    "C18e": ("C18", "replay-differs:{random,time,uuid}", ""),
    "C18f": ("C18", "workflows-share-sub-invocation", ""),
    "C20e": ("C20", "get-changed-system:/broker/queue:queue-content (state dup_queue)", ""),
    "C20f": ("C20", "get-changed-system:/invocations/:state", ""),
})

DETECT.update({
    # round 4 (ids ...g / ...h)
    "C02g": ("C06", "body-executing-while-status:REROUTED:concurrent-pollers", "the scenario it needs (tasks with running concurrency, two pollers) lives in C06, whose new 'a body only executes while RUNNING' assertion reports it; C02's own scenarios have no running concurrency"),
    "C02h": ("C02", "in-lock-chain-broken:sqlite", ""),
    "C04g": ("C04", "left-in-recovery-status:lost-race:*", ""),
    "C04h": ("C04", "scan-selects-live:child-of-looping-parent:*", "needed strengthening: the real BaseRunner.run() loop of a parent with stand-in workers, one iteration per virtual second, scanned after every iteration"),
    "C06g": ("C06", "blocked-invocation-handed-out:retry", "needed strengthening: oracle on what a poll hands out (no invocation whose key is held, at most one per key)"),
    "C06h": ("C06", "blocked-without-same-key-holder:*", "needed strengthening: a second task with the same argument names and values among the submissions"),
    "C09g": ("C09", "mem-ready-set-inconsistent", ""),
    "C09h": ("C09", "blocking-report:missing:sqlite", ""),
    "C10g": ("C10", "history:missing-entry:*:mem", ""),
    "C10h": ("C10", "history:filed-under-other-invocation:*", ""),
    "C14g": ("C14", "pool-not-at-capacity:ppr:plain", ""),
    "C16g": ("C16", "diverge:return:paginate:value", ""),
    "C16h": ("C16", "diverge:return:t_get_triggers:value", "needed strengthening: a trigger-definition component (register / re-register / clean per task on shared conditions)"),
    "C18g": ("C18", "replay-differs:{random,time,uuid}", ""),
    "C18h": ("C18", "different-calls-share-one-sub-invocation / subtask-of-another-task-returned", "needed strengthening: a second sub-task called with the same arguments"),
    "C19g": ("C19", "execution-count-vs-statement:retry-boundary-race", ""),
    "C19h": ("C19", "execution-count-vs-statement:sync / execution-counts-differ:sync-vs-*", "needed strengthening: callers that read a result twice, children returning None"),
})

DETECT.update({
    # round 5 (ids ...i / ...j)
    "C01i": ("C02", "status-history:two-claims-no-release:mem / not-linearizable:mem", "the third independent rediscovery of the in-memory read hoisted out of the per-invocation lock (C01b, C01f): an interleaving defect, invisible to C01's sequential quantifier, reported by C02"),
    "C01j": ("C01", "wrongly-accepted:no-edge / backends-disagree", ""),
    "C03i": ("C04", "left-in-recovery-status:lost-race:{pending,running}:*", "no process dies in it: a recovery run that loses a race leaves invocations in *_RECOVERY; that is C04's clause and C04 reports it (C03 stays silent: its quantifier is over crash points)"),
    "C03j": ("C03", "stranded:claim/ccretry:at=RETRY/q0:after=end-of-role:crash=none (also C06 blocked-or-left-stranded:RETRY)", "needed strengthening: scenario claim/ccretry (the blocked invocation is one awaiting a retry)"),
    "C05i": ("C05", "final-status-published-before-exception-stored / failed-without-readable-exception:processes", ""),
    "C05j": ("C05", "success-with-wrong-result:* (also C15 store:different-content-same-reference)", "needed strengthening: result families of equal length that differ only in the middle, in every size class up to 300 kB; every finished invocation is read again after later ones"),
    "C06i": ("C06", "blocked-invocation-handed-out:*", ""),
    "C06j": ("C06", "blocked-invocation-handed-out:direct", ""),
    "C07i": ("C07", "expected-reuse:{KEYS,TASK}:new-id (mem)", "needed strengthening: requests that the lifecycle rejects on a still REGISTERED invocation, inside the histories"),
    "C07j": ("C07", "expected-reuse:{ARGUMENTS,KEYS}:new-id (sqlite)", "needed strengthening: argument values of a few hundred characters (inline, but long for an index column)"),
    "C08i": ("C08", "sched:dequeued-twice / proc:dequeued-twice", ""),
    "C08j": ("C08", "sched:lost / sched:retrieve-raised", ""),
    "C10i": ("C10", "history:filed-under-other-invocation:*", ""),
    "C10j": ("C10", "history:missing-entry:*:mem", ""),
    "C12i": ("C12", "two-authorised:*:with-execution-history / margin-not-respected:with-execution-history", "needed strengthening: runners with recorded service executions of every length class (none ... longer than the cycle)"),
    "C12j": ("C12", "multi:two-authorised:own-instances / multi:single-runner-refused", "needed strengthening: every runner asks through its own application instance on a shared SQLite file; joins, leaves and recorded executions in mid-cycle"),
    "C13i": ("C13", "cron:two-occurrences-for-one-minute:concurrent-polls:never-fired:mem / occurrence-launched-more-than-once:cron", "needed strengthening: two runners polling inside one scheduled minute under explored interleavings, on a never-fired and on a warm store"),
    "C13j": ("C13", "occurrence-not-launched:event:single:concurrent-loops", "needed strengthening: a third actor that re-registers the task's triggers (another runner starting) while the loops serve a pending occurrence"),
    "C15i": ("C15", "store:resend-after-mutation:same-reference / second-reference-other-content", "needed strengthening: an object serialized, grown in place and serialized again; read back by another instance"),
    "C15j": ("C15", "ident:spelling-changes-identity:sibling-* / ident:arguments-not-bound:sibling-*", "needed strengthening: functions made by one factory (one code object, different defaults), called in shuffled order"),
    "C16i": ("C16", "diverge:return:t_cron_store:value", "the same change as C13i, delivered independently for C16"),
    "C16j": ("C16", "diverge:return:q_existing:value (also C07 expected-fresh:ARGUMENTS:reused)", "needed strengthening: lookups by two or three serialized arguments on invocations that match in part"),
    "C17i": ("C17", "bystander-changed:purge:*:sqlite", ""),
    "C17j": ("C17", "bystander-changed:purge:purge_client_data_store:*", ""),
    "C18i": ("C18", "replay-differs:{time,uuid,random}", ""),
    "C18j": ("C18", "workflows-share-values / workflows-share-sub-invocation", "needed strengthening: sub-workflows (a force_new_workflow task started from a workflow) asking for the same kinds of things as their parent"),
    "C19i": ("C19", "execution-counts-differ:sync-vs-*", "needed strengthening: the same call twice in one group / loop"),
    "C19j": ("C19", "outcome-differs:sync-vs-* / outcome-vs-statement:*", "needed strengthening: a retriable error class that comes into existence after the process has already stored and read failures"),
})

for d in sorted(os.listdir(os.path.join(ROOT, "seeded"))):
    p = os.path.join(ROOT, "seeded", d)
    if not os.path.isdir(p) or not os.path.exists(os.path.join(p, "patch.diff")):
        continue
    prop = d[:3]
    notes = ""
    for n in ("notes.md", "NOTES.md", "README.md"):
        if os.path.exists(os.path.join(p, n)):
            notes = open(os.path.join(p, n), errors="replace").read()
            break
    title = next((l.strip("# ").strip() for l in notes.splitlines() if l.startswith("#")), "")
    def section(rx):
        m = re.search(rx + r".*?\n(.*?)(?=\n## |\Z)", notes, re.S | re.I)
        return m.group(1).strip()[:2000] if m else ""
    needs = section(r"##[^\n]*needs") or section(r"##[^\n]*manifest")
    clause = section(r"##[^\n]*clause") or section(r"##[^\n]*break")
    conf = {}
    if os.path.exists(os.path.join(p, "confirm.json")):
        conf = json.load(open(os.path.join(p, "confirm.json")))
    chk, sig, note = DETECT.get(d, (prop, None, ""))
    files = sorted(os.listdir(p))
    meta = {
        "id": d, "property": prop, "change": title, "breaks": clause, "needs_to_manifest": needs,
        "patch": "patch.diff" + (" (rebased onto the repaired tree; the agent's original against the pinned commit is patch_orig_pinned.diff)" if "patch_orig_pinned.diff" in files else ""),
        "demonstration": [f for f in files if f.startswith("demo") and f.endswith(".py")] + [f for f in files if f.endswith("_tasks.py")],
        "what_i_ran": {
            "confirmation": "tools/confirm_seed.sh %s <agent output dir>: scratch worktree of /repo HEAD outside /repo and /verif; demonstration without and with the patch; the repository's full test suite with the patch compared with BASELINE stable_pass (tools/baseline_cmp.py); tests not passing in that (loaded) run re-run alone with the patch (tools/recheck_failed.sh)" % d,
            "demo_exit_without_patch": conf.get("demo_rc_clean"), "demo_exit_with_patch": conf.get("demo_rc_patched"), "patch_applied": conf.get("patch_applied"),
            "suite_with_patch": (conf.get("baseline_cmp") or "").splitlines()[:1], "suite_not_passing": (conf.get("baseline_cmp") or "").splitlines()[1:12],
            "rerun_of_not_passing_alone": conf.get("rerun_summary"),
            "check_run": f"tools/try_seed.sh seeded/{d}/patch.diff {chk}" if chk else None,
        },
        "caught_by": chk, "signature_seen": sig, "note": note,
    }
    json.dump(meta, open(os.path.join(p, "meta.json"), "w"), indent=1)
    print(d, "meta written;", "caught by", chk)
