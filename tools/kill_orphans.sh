#!/bin/bash
# Kill runner worker processes leaked by the repository's own test suite (re-parented to pid 1, keep polling).
n=0
for p in $(pgrep -f "multiprocessing"); do
  pp=$(awk '{print $4}' /proc/$p/stat 2>/dev/null); et=$(ps -o etimes= -p $p 2>/dev/null | tr -d ' ')
  if [ "$pp" = "1" ] && [ "${et:-0}" -gt "${1:-300}" ]; then kill -9 $p 2>/dev/null && n=$((n+1)); fi
done
echo "killed $n orphans"
