#!/usr/bin/env python3
"""Writes seeded/ROUND5_TRIED.md: every round-5 seeded change, the check and signature that reported it, and whether my own full
confirmation (demonstration without/with the patch + the repository's whole test suite with the patch) finished in the session.
Unconfirmed ones are parked (patch, demonstration, notes) under seeded/_round5_unconfirmed/<id>/ for a later session; they are not kept seeds."""
import importlib.util, json, os, shutil, sys
ROOT = os.path.dirname(os.path.dirname(os.path.abspath(__file__)))
SRC = sys.argv[1] if len(sys.argv) > 1 else "/tmp/seed_out5"
src = open(os.path.join(ROOT, "tools", "mkmeta.py")).read()
ns = {"__file__": os.path.join(ROOT, "tools", "mkmeta.py")}
exec(src.split("for d in sorted(os.listdir")[0], ns)
DETECT = ns["DETECT"]
rows = []
for sid in sorted(k for k in DETECT if k[-1] in "ij"):
    prop, var = sid[:3], "a" if sid[-1] == "i" else "b"
    conf = os.path.join(ROOT, "seeded", sid, "confirm.json")
    state = "not confirmed (suite run did not fit)"
    if os.path.exists(conf):
        c = json.load(open(conf))
        ok = c.get("demo_rc_clean") == 0 and c.get("demo_rc_patched") not in (0, None) and c.get("patch_applied")
        state = ("kept: demonstration 0 -> %s, suite: %s" % (c.get("demo_rc_patched"), (c.get("baseline_cmp") or "").splitlines()[0] if c.get("baseline_cmp") else "?")) if ok else "confirmation failed: " + json.dumps({k: c.get(k) for k in ("demo_rc_clean", "demo_rc_patched", "patch_applied")})
    else:
        d = os.path.join(SRC, prop, var)
        if os.path.isdir(d):
            dst = os.path.join(ROOT, "seeded", "_round5_unconfirmed", sid)
            os.makedirs(dst, exist_ok=True)
            for f in os.listdir(d):
                if os.path.isfile(os.path.join(d, f)) and os.path.getsize(os.path.join(d, f)) < 200_000:
                    shutil.copy(os.path.join(d, f), dst)
        part = os.path.join(ROOT, "seeded", sid)
        if os.path.isdir(part) and not os.path.exists(conf):
            shutil.rmtree(part)     # a confirmation that was cut short leaves a half-filled directory
    chk, sig, note = DETECT[sid]
    rows.append(f"| {sid} | {chk} | `{sig}` | {note or 'as delivered'} | {state} |")
with open(os.path.join(ROOT, "seeded", "ROUND5_TRIED.md"), "w") as f:
    f.write("# Round 5 (fifth session): every delivered change, what reported it, confirmation state\n\n"
            "`tools/try_seed.sh <patch> <check>` was run for every row (scratch worktree of /repo HEAD). 'kept' rows have their own directory with\n"
            "`confirm.json`; the others are parked under `_round5_unconfirmed/` (patch, demonstration, agent notes) and are not counted as kept seeds.\n\n"
            "| seed | reported by | signature | needed | confirmation |\n|---|---|---|---|---|\n" + "\n".join(rows) + "\n")
print(len(rows), "rows")
