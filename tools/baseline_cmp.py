#!/usr/bin/env python3
"""Compare a junit xml of the repository's own test suite with /root/.vp/BASELINE.json stable_pass."""
import json, sys, xml.etree.ElementTree as ET
base = set(json.load(open('/root/.vp/BASELINE.json'))['stable_pass'])
root = ET.parse(sys.argv[1]).getroot()
res = {}
for tc in root.iter('testcase'):
    name = f"{tc.get('classname')}::{tc.get('name')}"
    bad = any(ch.tag in ('failure', 'error') for ch in tc)
    skipped = any(ch.tag == 'skipped' for ch in tc)
    res[name] = 'fail' if bad else ('skip' if skipped else 'pass')
missing = sorted(b for b in base if res.get(b) != 'pass')
print(f"baseline stable_pass={len(base)} run_total={len(res)} passed={sum(v=='pass' for v in res.values())} not-passing-from-baseline={len(missing)}")
for m in missing[:40]:
    print("  ", m, res.get(m))
sys.exit(1 if missing else 0)
