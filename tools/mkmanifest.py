#!/usr/bin/env python3
"""Regenerate MANIFEST.json from the table below (keeps it valid while checks are added)."""
import json
import os

HERE = os.path.dirname(os.path.dirname(os.path.abspath(__file__)))

# pid -> (level, technique, level text, level note, design ref)
CHECKS = {
    "C01": ("exploration", "runtime monitor: reference-model oracle over complete single-step enumeration + exhaustive/random request sequences on both backends",
            "Every (state, owner) x (request, requester) cell and every request sequence up to the bound is executed against the real orchestrators through set_invocation_status and judged by an independent model of the documented graph; held = no divergence on any executed request.",
            "Trusts the SVG data-edge attributes as the documented graph and the public getter for read-back; unreachable cells are poked into the backend.", "DESIGN.md 4/C01"),
    "C12": ("exploration", "runtime monitor: statement-level oracle on outputs of the real slot functions at boundary/ulp-neighbour instants + frozen-clock system runs",
            "At every generated instant the real can_run_atomic_service is asked for every runner and the count of authorised runners, margin separation and non-empty windows are asserted; also through should_run_atomic_service on both orchestrators under a frozen virtual clock, with recorded service executions of every length, and with every runner asking through its own application instance on one SQLite file while runners join and leave.",
            "Instants are sampled (grid + all boundaries +-2 ulps), not all reals; the clock names in the orchestrator modules are rebound to a virtual clock.", "DESIGN.md 4/C12"),
}

NOT_YET = "check not built yet in this session (design in DESIGN.md section 4); will be claimed once its monitor runs clean on the unchanged tree"


def main():
    props = [json.loads(l)["id"] for l in open(os.path.join(HERE, "properties.jsonl"))]
    extra_path = os.path.join(HERE, "tools", "manifest_checks.json")
    checks = dict(CHECKS)
    if os.path.exists(extra_path):
        checks.update({k: tuple(v) for k, v in json.load(open(extra_path)).items()})
    na_path = os.path.join(HERE, "tools", "not_applicable.json")
    na_reasons = json.load(open(na_path)) if os.path.exists(na_path) else {}
    man = {
        "version": 1,
        "setup_cmd": "./setup.sh",
        "hooks": {
            "guard": "PYNENC_VERIF",
            "enable": "no source hooks: ./check exports PYNENC_VERIF=1 and the harness (vlib/) rebinds module attributes / wraps methods of the imported pynenc from outside; with the variable unset nothing is installed",
            "baseline_off_cmd": "cd /repo && /venv/bin/python -m pytest -ra -q -p no:cacheprovider --timeout=900 --continue-on-collection-errors",
            "source_commits": [],
            "add_only": True,
        },
        "engines": [
            {"name": "driver", "path": "vlib/driver.py", "serves_properties": sorted(checks), "kind_free_text": "case generation, sharded worker subprocesses, verdict/evidence/known-finding classification, replay"},
            {"name": "vclock", "path": "vlib/vclock.py", "serves_properties": ["C04", "C12", "C13", "C16"], "kind_free_text": "virtual clock rebound over pynenc's clock names"},
            {"name": "models", "path": "vlib/models/", "serves_properties": sorted(checks), "kind_free_text": "small executable reference models used as oracles"},
        ],
        "checks": [],
        "not_applicable": [],
        "notes": "All checks are runtime monitors over executions of the real code in /repo's working tree (editable install in /venv, /repo first on PYTHONPATH). exit 0 held / 1 VIOLATION / 2 INCONCLUSIVE. Known findings: known_findings.json (mechanism signatures).",
    }
    for pid in props:
        if pid in checks:
            level, technique, text, note, ref = checks[pid]
            man["checks"].append({
                "property_id": pid,
                "quick_cmd": f"./check {pid} quick",
                "thorough_cmd": f"./check {pid} thorough",
                "evidence_file": f"evidence/{pid}.json",
                "replay_cmd_template": f"./check {pid} --replay {{path}}",
                "engine": "driver",
                "level_claimed": {"category": level, "text": text, "design_ref": ref},
                "level_note": note,
                "technique": technique,
            })
        else:
            man["not_applicable"].append({"property_id": pid, "reason": na_reasons.get(pid, NOT_YET)})
    with open(os.path.join(HERE, "MANIFEST.json"), "w") as f:
        json.dump(man, f, indent=1)
    print("claimed:", [c["property_id"] for c in man["checks"]])


if __name__ == "__main__":
    main()
