#!/bin/bash
# usage: tools/confirm_queue.sh ID:SRC [ID:SRC ...]
for x in "$@"; do id="${x%%:*}"; src="${x#*:}"; /verif/tools/confirm_seed.sh "$id" "$src" > "/tmp/confirm_$id.log" 2>&1; done
