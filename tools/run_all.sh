#!/bin/bash
# usage: tools/run_all.sh <quick|thorough> [seed] [ids...]   -- runs the checks one after another, prints one summary line per check
TIER="${1:-quick}"; SEED="${2:-0}"; shift 2 2>/dev/null
IDS="${@:-C01 C02 C03 C04 C05 C06 C07 C08 C09 C10 C11 C12 C13 C14 C15 C16 C17 C18 C19 C20}"
cd "$(dirname "$0")/.."
for id in $IDS; do
  t0=$(date +%s)
  VERIF_SEED=$SEED ./check $id $TIER > /tmp/runall_${TIER}_${SEED}_$id.log 2>&1
  rc=$?
  echo "$id tier=$TIER seed=$SEED rc=$rc $(( $(date +%s) - t0 ))s  $(grep -E '^(VIOLATION|INCONCLUSIVE)' /tmp/runall_${TIER}_${SEED}_$id.log | cut -c1-200 | head -3 | tr '\n' '|')"
done
