#!/bin/bash
# usage: tools/matrix.sh   -- re-runs every kept seeded change and every selftest mutation against the check that is recorded as catching it
# (scratch worktrees outside /repo and /verif, see tools/try_seed.sh); writes seeded/MATRIX.txt
cd "$(dirname "$0")/.."
python3 - > /tmp/matrix_jobs.txt <<'PY'
import json, glob, os
for f in sorted(glob.glob('seeded/*/meta.json')):
    m = json.load(open(f))
    if m.get('caught_by'):
        print(f"{m['id']} {os.path.dirname(f)}/patch.diff {m['caught_by']}")
for f in sorted(glob.glob('selftest/mutations/*.diff')):
    print(f"{os.path.basename(f)[:-5]} {f} {os.path.basename(f)[:3]}")
PY
run_one() { id="$1"; patch="$2"; chk="$3"; out=$(tools/try_seed.sh "$patch" "$chk" 2>&1 | tail -1); echo "$id $chk $out"; }
export -f run_one
cat /tmp/matrix_jobs.txt | xargs -P 3 -L 1 bash -c 'run_one "$0" "$1" "$2"' | sort > seeded/MATRIX.txt
echo "caught: $(grep -c 'exit=1' seeded/MATRIX.txt)  not caught: $(grep -vc 'exit=1' seeded/MATRIX.txt)"
