#!/bin/bash
# usage: tools/confirm_seed.sh <seed id e.g. C01a> <src dir with patch.diff demo.py ...>
# Confirms a seeded change in its own scratch worktree of /repo HEAD (outside /repo and /verif):
#   demo passes without the patch, fails with it; the repository's own test suite still passes with it.
# Writes <dest>/confirm.json ; removes the worktree afterwards.
set -u
ID="$1"; SRC="$2"; DEST="/verif/seeded/$ID"
WT="/tmp/confirm/$ID"
mkdir -p "$DEST" /tmp/confirm
[ -f "$DEST/patch.diff" ] || cp "$SRC/patch.diff" "$DEST/patch.diff"
for f in "$SRC"/*; do b=$(basename "$f"); [ "$b" = "patch.diff" ] || cp -r "$f" "$DEST/" 2>/dev/null; done
git -C /repo worktree remove --force "$WT" 2>/dev/null
git -C /repo worktree add -q --detach "$WT" HEAD || exit 9
cd "$WT"
run_demo() { (cd "$WT" && PYTHONPATH="$WT" timeout 300 /venv/bin/python "$DEST/demo.py" > "$DEST/$1" 2>&1; echo $?); }
if grep -q "^def test_\|^import pytest\|^from pytest" "$DEST/demo.py" && ! grep -q "__main__" "$DEST/demo.py"; then
  run_demo() { (cd "$WT" && PYTHONPATH="$WT" timeout 300 /venv/bin/python -m pytest -q -p no:cacheprovider "$DEST/demo.py" > "$DEST/$1" 2>&1; echo $?); }
fi
rc_clean=$(run_demo demo_clean.log)
git apply "$DEST/patch.diff"; applied=$?
rc_patched=$(run_demo demo_patched.log)
PYTHONPATH="$WT" timeout ${SUITE_TIMEOUT:-2400} /venv/bin/python -m pytest -q -p no:cacheprovider --timeout=900 --continue-on-collection-errors --junitxml="$DEST/suite.xml" pynenc_tests > "$DEST/suite.log" 2>&1
suite_rc=$?
# the suite's kill/stop/signal tests leak runner worker processes (re-parented to pid 1, polling for ever): remove ours
for p in $(pgrep -f python); do [ "$(readlink /proc/$p/cwd 2>/dev/null)" = "$WT" ] && [ "$p" != "$$" ] && kill -9 $p 2>/dev/null; done
python3 /verif/tools/baseline_cmp.py "$DEST/suite.xml" > "$DEST/suite_cmp.txt" 2>&1
cmp_rc=$?
python3 - <<PY
import json
json.dump({"id":"$ID","patch_applied":$applied==0,"demo_rc_clean":$rc_clean,"demo_rc_patched":$rc_patched,"suite_rc":$suite_rc,"baseline_cmp_rc":$cmp_rc,
 "baseline_cmp":open("$DEST/suite_cmp.txt").read()[:3000]}, open("$DEST/confirm.json","w"), indent=1)
PY
rm -f "$DEST/suite.xml" "$DEST/suite.log"
cd /; git -C /repo worktree remove --force "$WT"
# the repository's test suite leaves its temporary databases behind (gigabytes per run): remove the stale ones
find /tmp -maxdepth 1 \( -name "tmp*" -o -name "pymp-*" \) -mmin +120 -exec rm -rf {} + 2>/dev/null
cat "$DEST/confirm.json" | head -20
