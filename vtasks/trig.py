"""Tasks and argument providers for C13 (module-level: trigger definitions serialise callables by module + name)."""


def src_ok(token=0):
    return token


def src_fail(token=0):
    raise ValueError(f"fail-{token}")


def src_other(token=0):
    return -1


def target(token=None, kind=None, extra=None):
    return [token, kind]


def target2(token=None, kind=None, extra=None):
    return [token, kind]


def cron_target():
    return "tick"


def args_from_event(ctx):
    return {"token": ctx.payload.get("token"), "kind": "event"}


def args_from_status(ctx):
    return {"token": ctx.invocation_id, "kind": "status"}


def args_from_result(ctx):
    return {"token": ctx.invocation_id, "kind": "result"}


def args_from_exception(ctx):
    return {"token": ctx.invocation_id, "kind": "exception"}
