"""Plain module-level task bodies registered on harness apps with app.task(fn, **options)."""


def echo(x=0):
    return x


def add(x, y=1):
    return x + y


def noop():
    return None


def keyed(k, v=0, w=0):
    return (k, v, w)
