"""Plain module-level task bodies registered on harness apps with app.task(fn, **options)."""


def echo(x=0):
    return x


def add(x, y=1):
    return x + y


def noop():
    return None


def keyed(k, v=0, w=0):
    return (k, v, w)


# --- C15: signatures for call-identity spellings and worker-side echo -------------------------
RECEIVED = []  # worker-side kwargs handed to the harness (stepping mode runs bodies in-process)


def sig_pos(a, b=2, c="c"):
    RECEIVED.append({"a": a, "b": b, "c": c})
    return [a, b, c]


def sig_alldef(a=1, b="x", *, c=None):
    """every parameter has a default: the call may be written with no argument at all"""
    RECEIVED.append({"a": a, "b": b, "c": c})
    return [a, b, c]


def sig_noargs():
    return "no-args"


def sig_kwonly(a, *, k=1, m=None):
    RECEIVED.append({"a": a, "k": k, "m": m})
    return {"a": a, "k": k, "m": m}


def _make_scaled(name, factor_default, unit_default):
    """task factory: the functions it returns share ONE code object and differ only in their defaults"""
    def scaled(a, factor=factor_default, *, unit=unit_default):
        RECEIVED.append({"a": a, "factor": factor, "unit": unit})
        return [a, factor, unit]
    scaled.__name__ = scaled.__qualname__ = name
    return scaled


sig_scaled_cm = _make_scaled("sig_scaled_cm", 2, "cm")
sig_scaled_in = _make_scaled("sig_scaled_in", 3, "in")
sig_scaled_pt = _make_scaled("sig_scaled_pt", 72, "pt")


def echo_value(v, pad=None):
    RECEIVED.append({"v": v, "pad": pad})
    return v


EXC_BOX = [None]  # exception the next raise_exc body raises (stepping mode runs bodies in-process)


def raise_exc(i=0):
    raise EXC_BOX[0]


# --- bodies that call other harness tasks through the app of the running invocation -------------
def _task(name):
    from pynenc import context
    from pynenc.identifiers.task_id import TaskId
    app = context.get_current_app()
    return app.get_task(TaskId(__name__, name))


def spawn_children(n=2):
    """registers n child invocations (fire and forget) and returns their ids"""
    t = _task("echo")
    return [t(i).invocation_id for i in range(n)]


def fail_with(msg="boom"):
    raise ValueError(msg)


def retry_once(token=0):
    from pynenc.exceptions import RetryError
    raise RetryError("again")


# --- bodies instrumented for the concurrency checks ---------------------------------------------
BODY_HOOK = [None]  # harness callback(event, invocation_id, extra)


def _cur_inv_id():
    from pynenc import context
    app = context.get_current_app()
    inv = context.get_dist_invocation_context(app.app_id) if app else None
    return inv.invocation_id if inv else None


def probed(x=0):
    """body that reports enter/exit to the harness (and gives the scheduler a chance in between)"""
    h = BODY_HOOK[0]
    inv = _cur_inv_id()
    if h:
        h("enter", inv, x)
        h("middle", inv, x)
        h("exit", inv, x)
    return x


def probed_keyed(k=0, v=0):
    h = BODY_HOOK[0]
    inv = _cur_inv_id()
    if h:
        h("enter", inv, (k, v))
        h("middle", inv, (k, v))
        h("exit", inv, (k, v))
    return [k, v]


def probed_keyed2(k=0, v=0):
    """a second task with the same signature: its invocations never share a concurrency key with probed_keyed's"""
    return probed_keyed(k, v)


ATTEMPTS = {}  # invocation id -> number of body executions so far (stepping / controlled runs are in-process)


def flaky(fail_times=1, x=0):
    """raises RetryError on the first `fail_times` executions of this invocation, then returns x"""
    from pynenc.exceptions import RetryError
    inv = _cur_inv_id()
    h = BODY_HOOK[0]
    n = ATTEMPTS.get(inv, 0) + 1
    ATTEMPTS[inv] = n
    if h:
        h("enter", inv, n)
    try:
        if n <= fail_times:
            raise RetryError(f"attempt {n}")
        return x
    finally:
        if h:
            h("exit", inv, n)


# --- C05: outcome-scripted body --------------------------------------------------------------------
OUTCOME_BOX = [None]      # ('value', v) | ('exc', e) used by the next execution (in-process stepping / controlled runs)
OUTCOME_SCRIPT = {}       # n -> ['value'|'exc', payload str]  (process mode: the script travels by file)


def scripted_outcome(n=0):
    if n in OUTCOME_SCRIPT:
        kind, payload = OUTCOME_SCRIPT[n]
        if kind == "value":
            return payload
        raise ValueError(payload)
    kind, val = OUTCOME_BOX[0]
    if kind == "attempts":
        # val: list of ('value'|'exc', x) per execution attempt of this invocation
        inv = _cur_inv_id()
        k = ATTEMPTS.get(inv, 0)
        ATTEMPTS[inv] = k + 1
        kind, val = val[min(k, len(val) - 1)]
    if kind == "value":
        return val
    raise val
