"""Generated task programs for C19 (sync development mode vs distributed execution).

A program is a tree of node specs (JSON):
  {"id": n, "fn": variant name, "v": int, "script": [action per attempt...], "children": [spec...], "call": "single"|"group"|"direct", ...}
actions: "return" | "RetryError" | "ValueError" | "KeyError" | "TypeError"
Variants are module-level functions sharing one implementation; each is registered with its own max_retries / retry_for.
"""
COUNTS = {}      # node id -> body executions (in-process runs)
DIRECT = {}      # app_id -> {variant name: direct-task wrapper}

VARIANTS = {
    # name: (max_retries, retry_for names)
    "p_r0": (0, ()), "p_r1": (1, ()), "p_r2": (2, ()), "p_r3": (3, ()),
    "p_r1_v": (1, ("ValueError",)), "p_r2_v": (2, ("ValueError",)), "p_r2_kv": (2, ("KeyError", "ValueError")), "p_r0_v": (0, ("ValueError",)),
}
EXC = {"ValueError": ValueError, "KeyError": KeyError, "TypeError": TypeError}


def _app():
    from pynenc import context
    return context.get_current_app()


def _task(name):
    from pynenc.identifiers.task_id import TaskId
    return _app().get_task(TaskId(__name__, name))


LATE_OK = [False]   # set by the harness once this process has already read a failed invocation (see checks/c19.py: prime)


def late_class():
    """a RetryError subclass that only comes into existence late in the life of the process (a plugin module imported lazily,
    after failures of other types have already been stored and read)"""
    cls = globals().get("LateRetry")
    if cls is None:
        from pynenc.exceptions import RetryError
        cls = type("LateRetry", (RetryError,), {"__module__": __name__, "__qualname__": "LateRetry"})
        globals()["LateRetry"] = cls
    return cls


def _plus(r, n):
    return None if r is None else r + n


def _impl(spec):
    from pynenc.exceptions import RetryError
    nid = spec["id"]
    COUNTS[nid] = COUNTS.get(nid, 0) + 1
    attempt = COUNTS[nid]
    total = spec["v"]
    kids = spec.get("children", [])
    how = spec.get("call", "single")
    if kids:
        if how == "group":
            t = _task(kids[0]["fn"])
            total += sum(t.parallelize([(c,) for c in kids]).results)
        elif how == "cgroup":
            # common_args + heterogeneous per-call dictionaries (a key set by one element must not leak into the next)
            t = _task(kids[0]["fn"])
            params = [{"spec": c, **({"bonus": c["bonus"]} if c.get("bonus") else {})} for c in kids]
            total += sum(t.parallelize(params, common_args={"extra": spec.get("extra", 0)}).results)
        elif how == "reread":
            # the caller reads every result twice (and a child may return None): reading is not executing
            invs = [_task(c["fn"])(c) for c in kids]
            for i in invs:
                first, second = i.result, i.result
                if first != second:
                    raise AssertionError(f"two reads of one result differ: {first!r} / {second!r}")
                total += first or 0
        elif how == "direct":
            app = _app()
            for c in kids:
                total += DIRECT[app.app_id]["d_" + c["fn"]](c)
        else:
            invs = [_task(c["fn"])(c) for c in kids]
            for i in invs:
                total += i.result
    action = spec["script"][min(attempt - 1, len(spec["script"]) - 1)]
    if action == "return":
        return None if spec.get("ret_none") else total
    if action == "RetryError":
        raise RetryError(f"node {nid} attempt {attempt}")
    if action == "LateRetry":
        raise late_class()(f"node {nid} attempt {attempt}")
    raise EXC[action](f"node {nid}", attempt)


def p_r0(spec, bonus=0, extra=0):
    return _plus(_impl(spec), bonus + extra)


def p_r1(spec, bonus=0, extra=0):
    return _plus(_impl(spec), bonus + extra)


def p_r2(spec, bonus=0, extra=0):
    return _plus(_impl(spec), bonus + extra)


def p_r3(spec, bonus=0, extra=0):
    return _plus(_impl(spec), bonus + extra)


def p_r1_v(spec, bonus=0, extra=0):
    return _plus(_impl(spec), bonus + extra)


def p_r2_v(spec, bonus=0, extra=0):
    return _plus(_impl(spec), bonus + extra)


def p_r2_kv(spec, bonus=0, extra=0):
    return _plus(_impl(spec), bonus + extra)


def p_r0_v(spec, bonus=0, extra=0):
    return _plus(_impl(spec), bonus + extra)


# direct-task flavour: separate functions (a function can carry one task per app)
def d_p_r0(spec, bonus=0, extra=0):
    return _plus(_impl(spec), bonus + extra)


def d_p_r1(spec, bonus=0, extra=0):
    return _plus(_impl(spec), bonus + extra)


def d_p_r2_v(spec, bonus=0, extra=0):
    return _plus(_impl(spec), bonus + extra)


DIRECT_VARIANTS = {"d_p_r0": "p_r0", "d_p_r1": "p_r1", "d_p_r2_v": "p_r2_v"}


def register(app):
    """register every variant on `app`; returns {name: task}"""
    import sys
    mod = sys.modules[__name__]
    tasks = {}
    for name, (mr, rf) in VARIANTS.items():
        opts = {"max_retries": mr}
        if rf:
            opts["retry_for"] = tuple(EXC[x] for x in rf)
        tasks[name] = app.task(getattr(mod, name), **opts)
    DIRECT[app.app_id] = {}
    for dname, base in DIRECT_VARIANTS.items():
        mr, rf = VARIANTS[base]
        opts = {"max_retries": mr}
        if rf:
            opts["retry_for"] = tuple(EXC[x] for x in rf)
        DIRECT[app.app_id][dname] = app.direct_task(getattr(mod, dname), **opts)
    return tasks


# ---- reference semantics (the statement's arithmetic), independent of pynenc -----------------------------------


class ModelFail(Exception):
    def __init__(self, etype, args):
        self.etype, self.eargs = etype, tuple(args)


def model_run(spec, counts):
    """Execute the program per the statement: retriable -> up to max_retries+1 executions, non-retriable -> 1."""
    fn = spec["fn"]
    base = DIRECT_VARIANTS.get("d_" + fn, fn) if spec.get("as_direct") else fn
    max_retries, rf = VARIANTS[fn]
    retriable = {"RetryError", "LateRetry"} | set(rf)
    tries = 0
    while True:
        tries += 1
        counts[spec["id"]] = counts.get(spec["id"], 0) + 1
        attempt = counts[spec["id"]]
        try:
            total = spec["v"]
            for c in spec.get("children", []):
                total += model_run(c, counts) or 0
                if spec.get("call") == "cgroup":
                    total += c.get("bonus", 0) + spec.get("extra", 0)
            action = spec["script"][min(attempt - 1, len(spec["script"]) - 1)]
            if action == "return":
                return None if spec.get("ret_none") else total
            raise ModelFail(action, (f"node {spec['id']} attempt {attempt}",) if action in ("RetryError", "LateRetry") else (f"node {spec['id']}", attempt))
        except ModelFail as e:
            if e.etype in retriable and tries <= max_retries:
                continue
            raise
