"""Task bodies for C03 (crash enumeration).  Bodies append to a log file shared by all processes of a case."""
import os

from pynenc.exceptions import RetryError

LOG_PATH = None   # set by the harness before any fork


def _log(kind, key):
    fd = os.open(LOG_PATH, os.O_WRONLY | os.O_APPEND | os.O_CREAT, 0o600)
    try:
        os.write(fd, f"{kind} {key}\n".encode())
    finally:
        os.close(fd)


def read_log():
    try:
        with open(LOG_PATH) as f:
            return [tuple(line.split()) for line in f.read().splitlines() if line.strip()]
    except FileNotFoundError:
        return []


def work(key: str, mode: str = "ok") -> str:
    """mode: ok | fail (terminal ValueError) | retry (RetryError on the first attempt that gets this far)"""
    _log("start", key)
    if mode == "retry" and sum(1 for e in read_log() if e == ("retried", key)) == 0:
        _log("retried", key)
        raise RetryError(key)
    _log("end", key)
    if mode == "fail":
        raise ValueError(key)
    return key


def keyed(key: str, k: int) -> str:
    _log("start", key)
    _log("end", key)
    return key
