"""Task bodies for generated call trees (C09-B, C11, C19).  A node spec is JSON:
   {"id": int, "v": int, "mode": "leaf"|"single"|"group"|"mixed", "children": [spec...], "script": [...]}.
The value of a node is v + sum(values of children)."""

EXEC_COUNT = {}     # node id -> number of body executions (in-process runs)
HOOK = [None]       # harness callback(event, node_id)


def _task(name):
    from pynenc import context
    from pynenc.identifiers.task_id import TaskId
    app = context.get_current_app()
    return app.get_task(TaskId(__name__, name))


def tree_value(spec):
    return spec["v"] + sum(tree_value(c) for c in spec.get("children", []))


def node(spec):
    nid = spec["id"]
    EXEC_COUNT[nid] = EXEC_COUNT.get(nid, 0) + 1
    h = HOOK[0]
    if h:
        h("enter", nid)
        for _ in range(spec.get("work", 0)):   # a body that takes a while (scheduler yield points under the harness)
            h("work", nid)
    t = _task("node")
    kids = spec.get("children", [])
    mode = spec.get("mode", "leaf")
    total = spec["v"]
    if kids:
        if mode == "single":
            invs = [t(c) for c in kids]
            for i in invs:
                total += i.result
        elif mode == "group":
            total += sum(t.parallelize([(c,) for c in kids]).results)
        else:  # mixed: first child singly, the rest as a group
            first = t(kids[0])
            rest = kids[1:]
            if rest:
                total += sum(t.parallelize([(c,) for c in rest]).results)
            total += first.result
    if h:
        h("exit", nid)
    return total


def flaky_leaf(spec):
    """raises RetryError on its first `fails` executions, then returns v"""
    from pynenc.exceptions import RetryError
    nid = spec["id"]
    EXEC_COUNT[nid] = EXEC_COUNT.get(nid, 0) + 1
    h = HOOK[0]
    if h:
        h("enter", nid)
    if EXEC_COUNT[nid] <= spec.get("fails", 1):
        raise RetryError(f"attempt {EXEC_COUNT[nid]}")
    return spec["v"]


def abnormal(spec):
    """a body whose thread ends abnormally (SystemExit is not an Exception): the invocation is left RUNNING by its thread"""
    nid = spec["id"]
    EXEC_COUNT[nid] = EXEC_COUNT.get(nid, 0) + 1
    h = HOOK[0]
    if h:
        h("enter", nid)
    raise SystemExit(3)
