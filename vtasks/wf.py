"""Scripted workflow bodies for C18.  The script is a list of operations: "random" | "time" | "uuid" | ["sub", x] | ["sub2", x] | ["child", script, fail_until]."""
RECORD = {}     # (workflow_id, invocation_id, attempt) -> [[op, value], ...]   (in-process runs)
ATTEMPT = {}    # invocation id -> executions so far
HOOK = [None]


def _app():
    from pynenc import context
    return context.get_current_app()


def _task(name):
    from pynenc.identifiers.task_id import TaskId
    return _app().get_task(TaskId(__name__, name))


def _cur():
    from pynenc import context
    app = _app()
    return context.get_dist_invocation_context(app.app_id)


def leaf(x=0):
    if x < 0:
        raise ValueError(f"leaf {x} fails")   # a sub-task that ends FAILED (its record must still be replayed, not relaunched)
    return x * 2


def leaf2(x=0):
    """a different task with the same parameter name: leaf2(x) and leaf(x) are different calls"""
    return x * 3 + 1


def scripted(script, fail_until=0, tag=""):
    """Executes the wf operations in order, records what it observed; raises RetryError on attempts <= fail_until."""
    return _run_script("scripted", script, fail_until)


def scripted_child(script, fail_until=0, tag=""):
    """the same body registered with force_new_workflow=True: called from a workflow it starts a workflow of its own (whose parent is the caller's)"""
    return _run_script("scripted_child", script, fail_until)


def _run_script(me_name, script, fail_until):
    from pynenc.exceptions import RetryError
    inv = _cur()
    me = _task(me_name)
    n = ATTEMPT.get(inv.invocation_id, 0) + 1
    ATTEMPT[inv.invocation_id] = n
    wid = inv.workflow.workflow_id
    seen = []
    RECORD[(wid, inv.invocation_id, n)] = seen
    h = HOOK[0]
    for op in script:
        if h:
            h("before-op", inv.invocation_id, op)
        if op == "random":
            seen.append(["random", me.wf.random()])
        elif op == "time":
            seen.append(["time", me.wf.utc_now().isoformat()])
        elif op == "uuid":
            seen.append(["uuid", me.wf.uuid()])
        elif op[0] == "child":
            _task("scripted_child")(op[1], op[2], "child")      # a plain call: started, not awaited
            seen.append(["child", len(op[1])])
        else:
            which = "leaf" if op[0] == "sub" else "leaf2"
            sub = me.wf.execute_task(_task(which), op[1])
            seen.append([op[0], op[1], sub.invocation_id, sub.task.task_id.key.rsplit(".", 1)[-1]])
    if n <= fail_until:
        raise RetryError(f"attempt {n}")
    return len(seen)
