"""Importable value types used by the generators (enums, exceptions, JSON-serialisable objects, dataclasses)."""
from dataclasses import dataclass
from enum import Enum, IntEnum, StrEnum
from typing import NamedTuple


class Color(Enum):
    RED = "red"
    GREEN = 2
    BLUE = "b l u e"


class Level(IntEnum):
    LOW = 1
    HIGH = 7


class Mode(StrEnum):
    FAST = "fast"
    SLOW = "slow"


class Status(Enum):
    """module-level namesake of Order.Status (a reconstruction by short name would silently pick this one)"""
    NEW = "new"
    DONE = 2


class Order:
    class Status(Enum):
        """an enum declared inside another class (qualified name Order.Status)"""
        NEW = "new"
        DONE = 2

    class Inner:
        class Flag(IntEnum):
            OFF = 0
            ON = 1


class HarnessError(Exception):
    """user-defined exception with positional args"""


class OtherError(ValueError):
    """user-defined subclass of a builtin exception"""


class Money:
    def __init__(self, amount, currency):
        self.amount = amount
        self.currency = currency

    def to_json(self):
        return {"amount": self.amount, "currency": self.currency}

    @classmethod
    def from_json(cls, data):
        return cls(data["amount"], data["currency"])

    def __eq__(self, other):
        return type(other) is Money and (self.amount, self.currency) == (other.amount, other.currency)

    def __hash__(self):
        return hash((self.amount, self.currency))

    def __repr__(self):
        return f"Money({self.amount!r},{self.currency!r})"


@dataclass
class Point:
    x: int
    y: float
    tag: str = "p"


class Pair(NamedTuple):
    a: int
    b: str
